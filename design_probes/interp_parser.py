"""Throwaway spike 2: run the real eval_i64 Parser (MIR) over a symbolic token stream (tokenizer stubbed)."""
import re, sys, time, itertools, collections, os
import z3
import mirparse
from interp import load_enums, Panic, Unsupported, is_sym, State, adt, UNIT

GEN = re.compile(r"::<[^<>]*(?:<[^<>]*(?:<[^<>]*>[^<>]*)*>[^<>]*)*>")
def strip_generics(s):
    prev = None
    while prev != s:
        prev = s; s = GEN.sub('', s)
    return s.replace("<'_>", '')

class Engine:
    def __init__(self, fns, promoted, enums, K):
        self.fns = fns; self.promoted = promoted; self.enums = enums; self.K = K
        self.solver = z3.Solver(); self.nq = 0; self.tq = 0.0; self.npaths = 0; self.nsteps = 0
        self.results = []; self.fresh = itertools.count(); self.unsupported = collections.Counter()
        # index crate functions by (module, method)
        self.byshort = collections.defaultdict(list)
        for name in fns:
            m = re.match(r'^(.*)::<impl at [^>]*>::(\w+)$', name)
            if m: self.byshort[(m.group(1), m.group(2))].append(name)
        self.tokens = None

    def feasible(self, cond):
        if cond is True: return True
        if cond is False: return False
        t = time.time(); self.solver.push(); self.solver.add(cond); r = self.solver.check(); self.solver.pop()
        self.nq += 1; self.tq += time.time() - t
        return r == z3.sat

    # ---- values ---------------------------------------------------------
    def fields_of(self, v, variant):
        if v[0] == 'adt': return v[3]
        if v[0] == 'sadt': return v[3][variant]
        if v[0] == 'tuple': return v[1]
        raise Unsupported('fields_of ' + str(v[0]))
    def read_path(self, v, path):
        variant = None
        for p in path:
            if isinstance(p, str): variant = p; continue
            if v[0] == 'box': v = v[1]  # Box<T> fields .0.0 -> pointer: handled separately
            v = self.fields_of(v, variant)[p]; variant = None
        return v
    def write_path(self, v, path, new):
        if not path: return new
        p = path[0]
        if isinstance(p, str):
            # variant marker followed by field index
            idx = path[1]
            if v[0] == 'sadt':
                d = dict(v[3]); f = list(d[p]); f[idx] = self.write_path(f[idx], path[2:], new); d[p] = tuple(f)
                return ('sadt', v[1], v[2], d)
            f = list(v[3]); f[idx] = self.write_path(f[idx], path[2:], new); return ('adt', v[1], v[2], tuple(f))
        if v[0] == 'adt':
            f = list(v[3]); f[p] = self.write_path(f[p], path[1:], new); return ('adt', v[1], v[2], tuple(f))
        if v[0] == 'tuple':
            f = list(v[1]); f[p] = self.write_path(f[p], path[1:], new); return ('tuple', tuple(f))
        raise Unsupported('write_path ' + str(v[0]))
    def resolve(self, st, fr, place):
        k = place[0]
        if k == 'local': return ((fr['uid'], place[1]), ())
        if k == 'deref':
            r = self.load(st, fr, place[1])
            if r[0] == 'boxptr': return (r[1], ())
            assert r[0] == 'ref', r
            return (r[1], r[2])
        if k == 'field':
            key, path = self.resolve(st, fr, place[1])
            return (key, path + (place[2],))
        if k == 'downcast':
            key, path = self.resolve(st, fr, place[1]); return (key, path + (place[2],))
        raise Unsupported('place ' + k)
    def load(self, st, fr, place):
        key, path = self.resolve(st, fr, place)
        v = st.mem[key]
        # Box<T>: (_b.0: Unique).0: NonNull  -> pointer to heap cell
        if isinstance(v, tuple) and v and v[0] == 'box' and path[:2] == (0, 0): return ('boxptr', v[1])
        return self.read_path(v, path)
    def store(self, st, fr, place, val):
        key, path = self.resolve(st, fr, place)
        st.mem[key] = self.write_path(st.mem.get(key), path, val) if path else val

    def const(self, st, fr, c):
        m = re.match(r'^(-?\d+)_(i8|i16|i32|i64|i128|isize|u8|u16|u32|u64|u128|usize)$', c)
        if m: return int(m.group(1))
        if c in ('true', 'false'): return c == 'true'
        m = re.match(r'^"(.*)"$', c, re.S)
        if m: return ('str', tuple(ord(ch) for ch in m.group(1)))
        if 'promoted[' in c:
            idx = re.search(r'promoted\[(\d+)\]', c).group(1)
            body = self.promoted[fr['fn'].name + '::promoted[' + idx + ']']
            st.uid += 1; pfr = {'uid': st.uid, 'fn': body, 'bb': 'bb0', 'cont': None}
            for s_ in body.blocks['bb0'].stmts: self.store(st, pfr, s_[1], self.rvalue(st, pfr, s_[2]))
            return st.mem[(pfr['uid'], 0)]
        if c.startswith('ZeroSized'): return ('zst', c)
        if c == '()': return UNIT
        if c.startswith('b"'): return ('opaque',)
        raise Unsupported('const ' + c)
    def operand(self, st, fr, op):
        if op[0] in ('move', 'copy'): return self.load(st, fr, op[1])
        if op[0] == 'const': return self.const(st, fr, op[1])
        if op[0] == 'fnitem': return ('fn', op[1])
        raise Unsupported(op[0])
    def discr(self, v):
        if v[0] == 'sadt': return v[2]
        return self.enums[v[1]].index(v[2])
    def rvalue(self, st, fr, rv):
        k = rv[0]
        if k == 'use': return self.operand(st, fr, rv[1])
        if k in ('ref', 'rawptr'):
            key, path = self.resolve(st, fr, rv[1]); return ('ref', key, path)
        if k == 'discr': return self.discr(self.load(st, fr, rv[1]))
        if k == 'adt':
            path = strip_generics(rv[1]); segs = path.split('::'); variant = segs[-1]; ty = segs[-2] if len(segs) > 1 else segs[-1]
            if ty not in self.enums: ty, variant = variant, None
            return adt(ty, variant, [self.operand(st, fr, a) for a in rv[2]])
        if k == 'struct':
            ty = strip_generics(rv[1]).split('::')[-1]
            return adt(ty, None, [self.operand(st, fr, v) for _, v in rv[2]])
        if k == 'tuple': return ('tuple', tuple(self.operand(st, fr, a) for a in rv[1]))
        if k == 'binop':
            a = self.operand(st, fr, rv[2]); b = self.operand(st, fr, rv[3]); o = rv[1]
            if o == 'Le': return a <= b
            if o == 'Lt': return a < b
            if o == 'Ge': return a >= b
            if o == 'Gt': return a > b
            if o == 'Eq': return a == b
            if o == 'Ne': return a != b
            if o == 'Sub': return a - b
            if o == 'Add': return a + b
            if o in ('SubWithOverflow', 'AddWithOverflow'):
                r = a - b if o.startswith('Sub') else a + b
                return ('tuple', (r, False))
            raise Unsupported('binop ' + o)
        if k == 'cast': return self.operand(st, fr, rv[1])
        if k == 'closure': return ('closure', rv[1])
        if k == 'array': return ('tuple', tuple(self.operand(st, fr, a) for a in rv[1]))
        raise Unsupported('rvalue ' + k)

    def resolve_callee(self, callee):
        c = strip_generics(callee)
        if c in self.fns: return c
        m = re.match(r'^(.*)::(\w+)::(\w+)$', c)        # mod::Type::method
        if m and (m.group(1), m.group(3)) in self.byshort:
            l = self.byshort[(m.group(1), m.group(3))]
            if len(l) == 1: return l[0]
        cands = [n for n in self.fns if n.endswith('::' + c) or n == c]
        return cands[0] if len(cands) == 1 else None

    def call_fn(self, st, fname, args, cont):
        f = self.fns[fname][0]
        st.uid += 1
        fr = {'uid': st.uid, 'fn': f, 'bb': 'bb0', 'cont': cont}
        for i, a in enumerate(args): st.mem[(fr['uid'], i + 1)] = a
        st.frames.append(fr)

    def branch(self, st, alts):
        """alts: list of (cond, fn(state)) ; explores each feasible alternative"""
        live = [(c, f) for c, f in alts if self.feasible(c)]
        for i, (c, f) in enumerate(live):
            s2 = st if i == len(live) - 1 else st.fork()
            if c is not True: self.solver.push(); self.solver.add(c)
            try:
                if f(s2): self.run(s2)
            except Unsupported as e:
                self.unsupported[str(e)[:90]] += 1
            finally:
                if c is not True: self.solver.pop()

    def run(self, st):
        while st.frames:
            fr = st.frames[-1]
            blk = fr['fn'].blocks[fr['bb']]
            for s in blk.stmts:
                self.nsteps += 1
                if s[0] == 'assign': self.store(st, fr, s[1], self.rvalue(st, fr, s[2]))
                else: raise Unsupported('stmt ' + s[0])
            t = blk.term; self.nsteps += 1; k = t[0]
            if k == 'goto': fr['bb'] = t[1]
            elif k == 'return':
                ret = st.mem.get((fr['uid'], 0), UNIT); st.frames.pop()
                if fr['cont'] is None: self.finish(st, ('ret', ret)); return
                fr['cont'](st, ret)
            elif k == 'drop': fr['bb'] = t[2]['return']
            elif k == 'unreachable': raise Unsupported('reached unreachable in ' + fr['fn'].name)
            elif k == 'assert':
                fr['bb'] = t[4]['success']   # spike: ignore
            elif k == 'switch':
                v = self.operand(st, fr, t[1]); tg = t[2]
                if not is_sym(v):
                    if v is True: v = 1
                    if v is False: v = 0
                    fr['bb'] = tg.get(str(v), tg.get('otherwise')); continue
                groups = collections.OrderedDict(); vals = []; isbool = z3.is_bool(v)
                for kk, bb in tg.items():
                    if kk == 'otherwise': continue
                    vals.append(int(kk)); groups.setdefault(bb, []).append(int(kk))
                alts = []
                uid = fr['uid']
                def go(bb):
                    def f(s2):
                        next(f_ for f_ in s2.frames if f_['uid'] == uid)['bb'] = bb; return True
                    return f
                for bb, vs in groups.items():
                    cond = z3.Or([(v if x else z3.Not(v)) if isbool else v == x for x in vs])
                    alts.append((cond, go(bb)))
                if 'otherwise' in tg:
                    cond = z3.And([(z3.Not(v) if x else v) if isbool else v != x for x in vals])
                    alts.append((cond, go(tg['otherwise'])))
                self.branch(st, alts); return
            elif k == 'call':
                _, dest, callee, args, tg = t
                argv = [self.operand(st, fr, a) for a in args]
                uid = fr['uid']
                def cont(st2, ret, uid=uid, dest=dest, tg=tg):
                    fr2 = next(f for f in st2.frames if f['uid'] == uid)
                    self.store(st2, fr2, dest, ret); fr2['bb'] = tg['return']
                # indirect call through a local (fn pointer / closure)
                if re.match(r'^(move|copy) _\d+$', callee):
                    fv = self.load(st, fr, mirparse.parse_place(callee.split(' ', 1)[1])[0])
                    if fv[0] == 'zst' and 'closure@' in fv[1]: fv = ('closure', fv[1])
                    if fv[0] == 'closure':
                        # closure coerced to fn pointer: find body "...::{closure#N}" by span text
                        span = re.search(r'closure@([^}]*)', fv[1]).group(1)
                        body = [n for n in self.fns if '{closure#' in n and any(span in l for l in [self.fns[n][0].sig])]
                        if len(body) != 1: raise Unsupported('closure body ' + fv[1])
                        self.call_fn(st, body[0], [('zst', 'closure-env')] + argv, cont); continue
                    raise Unsupported('indirect call ' + str(fv)[:80])
                target = self.resolve_callee(callee)
                sname = strip_generics(callee)
                if target and not self.is_stubbed(sname):
                    self.call_fn(st, target, argv, cont); continue
                outs = self.summary(st, fr, sname, argv)
                alts = []
                for c, v in outs:
                    def f(s2, v=v):
                        if isinstance(v, Panic): self.finish(s2, ('panic', str(v))); return False
                        fr2 = next(f_ for f_ in s2.frames if f_['uid'] == uid)
                        vv = v(s2) if callable(v) else v
                        self.store(s2, fr2, dest, vv); fr2['bb'] = tg['return']; return True
                    alts.append((c, f))
                if len(alts) == 1 and alts[0][0] is True:
                    if not alts[0][1](st): return
                    continue
                self.branch(st, alts); return
            else: raise Unsupported('term ' + k)

    def is_stubbed(self, sname):
        return ('Tokenizer as Iterator>::next' in sname or sname.endswith('tokenizer::Tokenizer::new')
                or ' as Clone>::clone' in sname or ' as PartialEq>::eq' in sname)

    def finish(self, st, res):
        self.npaths += 1
        self.results.append(res)
        if os.environ.get('SHOW') and res[0] == 'ret' and res[1][2] == 'Ok':
            assert self.solver.check() == z3.sat
            m = self.solver.model(); toks = []
            for i in range(self.K):
                kd = m.eval(z3.Int('kind%d' % i), model_completion=True).as_long(); nm = self.enums['Token'][kd]
                # how many kinds are possible at this position on this path?
                alts = [v for j, v in enumerate(self.enums['Token']) if self.feasible(z3.Int('kind%d' % i) == j)]
                toks.append(nm if len(alts) == 1 else '{' + '|'.join(alts) + '}')
            def show(v):
                if is_sym(v) or isinstance(v, int): return str(v)
                if v[0] == 'box': return show(st.mem[v[1]])
                if v[0] in ('adt',): return v[2] + ('(' + ', '.join(show(x) for x in v[3]) + ')' if v[3] else '')
                return v[0]
            print('   Ok:', ' '.join(toks), ' => ', show(res[1][3][0]))

    def rd(self, st, ref): return self.read_path(st.mem[ref[1]], ref[2])
    def wr(self, st, ref, val):
        st.mem[ref[1]] = self.write_path(st.mem[ref[1]], ref[2], val) if ref[2] else val

    def struct_eq(self, a, b):
        """structural equality of two values -> python bool or z3 Bool"""
        if is_sym(a) or is_sym(b) or isinstance(a, (int, bool)):
            r = (a == b); return r
        if a[0] in ('adt', 'sadt') and b[0] in ('adt', 'sadt'):
            if a[0] == 'adt' and b[0] == 'adt':
                if a[2] != b[2]: return False
                return self.conj([self.struct_eq(x, y) for x, y in zip(a[3], b[3])])
            if a[0] == 'adt': a, b = b, a
            # a symbolic, b concrete or symbolic
            if b[0] == 'adt':
                idx = self.enums[b[1]].index(b[2])
                return self.conj([a[2] == idx] + [self.struct_eq(x, y) for x, y in zip(a[3][b[2]], b[3])])
            raise Unsupported('sadt == sadt')
        if a[0] == 'tuple': return self.conj([self.struct_eq(x, y) for x, y in zip(a[1], b[1])])
        raise Unsupported('struct_eq ' + str(a[0]))
    def conj(self, cs):
        cs = [c for c in cs if c is not True]
        if any(c is False for c in cs): return False
        if not cs: return True
        return z3.And(cs) if len(cs) > 1 else cs[0]

    def fresh_token(self, st):
        i = next(self.fresh)
        d = z3.Int('kind%d' % i); vs = self.enums['Token']
        self.solver.add(d >= 0, d < len(vs))   # global (path independent) domain constraint
        fd = z3.Int('fn%d' % i); nf = self.enums['NativeFunction']
        self.solver.add(fd >= 0, fd < len(nf))
        payload = {}
        for v in vs:
            if v in ('Num', 'Superscript'): payload[v] = (z3.Int('val%d_%s' % (i, v)),)
            elif v == 'ExplicitFunction': payload[v] = (('sadt', 'NativeFunction', fd, {n: () for n in nf}),)
            else: payload[v] = ()
        return ('sadt', 'Token', d, payload)

    def summary(self, st, fr, name, a):
        T = True
        if name.endswith('tokenizer::Tokenizer::new'): return [(T, adt('Tokenizer', None, [0]))]
        if 'Tokenizer as Iterator>::next' in name:
            tk = self.rd(st, a[0]); pos = tk[3][0]
            self.wr(st, a[0], adt('Tokenizer', None, [pos + 1]))
            if pos < self.K: return [(T, adt('Option', 'Some', [self.fresh_token(st)]))]
            return [(T, adt('Option', 'Some', [adt('Token', 'Eof')]))]
        if ' as Clone>::clone' in name: return [(T, self.rd(st, a[0]))]
        if ' as PartialEq>::eq' in name:
            x = self.rd(st, a[0]); y = self.rd(st, a[1])
            if x[0] == 'ref': x = self.rd(st, x)
            if y[0] == 'ref': y = self.rd(st, y)
            return [(T, self.struct_eq(x, y))]
        if name == '<OperatorCategory as PartialOrd>::lt':
            x = self.rd(st, a[0]); y = self.rd(st, a[1]); return [(T, self.discr(x) < self.discr(y))]
        if name.startswith('<Result<') and name.endswith('as Try>::branch'):
            v = a[0]
            if v[2] == 'Ok': return [(T, adt('ControlFlow', 'Continue', [v[3][0]]))]
            return [(T, adt('ControlFlow', 'Break', [adt('Result', 'Err', [v[3][0]])]))]
        if name.startswith('<Result<') and 'FromResidual' in name: return [(T, adt('Result', 'Err', [a[0][3][0]]))]
        if name == 'Box::new':
            st.uid += 1; key = (st.uid, 0); st.mem[key] = a[0]; return [(T, ('box', key))]
        if name == 'Arc::new': return [(T, ('arc', a[0]))]
        if name == 'Vec::new': return [(T, ('vec', ()))]
        if name == 'Vec::push':
            v = self.rd(st, a[0]); self.wr(st, a[0], ('vec', v[1] + (a[1],))); return [(T, UNIT)]
        if name == 'Vec::is_empty': return [(T, len(self.rd(st, a[0])[1]) == 0)]
        if name.startswith('<Vec<') and name.endswith('Index<usize>>::index'):
            v = self.rd(st, a[0])
            if a[1] >= len(v[1]): return [(T, Panic('index out of bounds'))]
            st.uid += 1; key = (st.uid, 0); st.mem[key] = v[1][a[1]]; return [(T, ('ref', key, ()))]
        if name in ('<&str as Into<String>>::into', '<str as ToString>::to_string'): return [(T, a[0] if a[0][0] == 'str' else self.rd(st, a[0]))]
        if name.startswith('core::fmt::rt::Argument') or name.startswith('Arguments::') or name in ('format', 'must_use', 'std::fmt::format'): return [(T, ('opaque',))]
        if name == 'Option::unwrap_or_default':
            v = a[0]; return [(T, v[3][0] if v[2] == 'Some' else 0)]
        if name == '<std::ops::Range<i32> as IntoIterator>::into_iter': return [(T, a[0])]
        if name == '<std::ops::Range<i32> as Iterator>::next':
            r = self.rd(st, a[0]); lo, hi = r[3]
            if lo < hi:
                self.wr(st, a[0], adt('Range', None, [lo + 1, hi])); return [(T, adt('Option', 'Some', [lo]))]
            return [(T, adt('Option', 'None'))]
        self.unsupported[name] += 1
        raise Unsupported('callee ' + name)

def main():
    K = int(sys.argv[1]) if len(sys.argv) > 1 else 1
    fns, promoted, allocs = mirparse.parse_mir(open('/work/probe/mir/all.mir').read())
    enums = load_enums(['/repo/src/eval_i64/token.rs', '/repo/src/utils/operator_category.rs', '/repo/src/utils/parse_error.rs'])
    enums['Node'] = load_enums(['/repo/src/eval_i64/ast.rs'])['Node']
    eng = Engine(fns, promoted, enums, K)
    newfn = eng.resolve_callee("eval_i64::parser::Parser::<'_>::new")
    parsefn = eng.resolve_callee("eval_i64::parser::Parser::<'_>::parse")
    st = State(); t0 = time.time()
    def after_new(st2, ret):
        if ret[2] != 'Ok': eng.finish(st2, ('ret', ret)); return
        st2.uid += 1; key = (st2.uid, 0); st2.mem[key] = ret[3][0]
        eng.call_fn(st2, parsefn, [('ref', key, ())], None)
    eng.call_fn(st, newfn, [('str', ()), adt('Option', 'Some', [z3.Int('placeholder')])], after_new)
    try: eng.run(st)
    except Unsupported as e: print('UNSUPPORTED', e)
    dt = time.time() - t0
    oks = sum(1 for r in eng.results if r[0] == 'ret' and r[1][2] == 'Ok'); errs = sum(1 for r in eng.results if r[0] == 'ret' and r[1][2] == 'Err')
    pan = sum(1 for r in eng.results if r[0] == 'panic')
    for k_, c_ in eng.unsupported.most_common(8): print('   unsupported', c_, k_)
    print('K', K, 'paths', eng.npaths, 'Ok', oks, 'Err', errs, 'panic', pan, 'steps', eng.nsteps, 'queries', eng.nq, 'solver_s', round(eng.tq, 2), 'wall_s', round(dt, 2))

if __name__ == '__main__': main()
