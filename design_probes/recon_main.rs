use std::panic;
use string_calculator::*;
use rust_decimal::Decimal;
use num_complex::Complex;
fn show<T: std::fmt::Debug>(name: &str, e: &str, f: impl FnOnce() -> T + panic::UnwindSafe) {
    let r = panic::catch_unwind(f);
    match r { Ok(v) => println!("{name:8} {e:32} => {v:?}"), Err(_) => println!("{name:8} {e:32} => PANIC") }
}
fn main() {
    panic::set_hook(Box::new(|_| {}));
    let args: Vec<String> = std::env::args().skip(1).collect();
    for e in args.iter() {
        let e2 = e.clone(); show("f64", e, move || eval_f64(e2, 7.5));
        let e2 = e.clone(); show("i64", e, move || eval_i64(e2, 7));
        let e2 = e.clone(); show("decimal", e, move || eval_decimal(e2, Decimal::new(75,1)));
        let e2 = e.clone(); show("complex", e, move || eval_complex(e2, Complex::new(7.5, 1.0)));
        let e2 = e.clone(); show("number", e, move || eval_number(e2, Number::Integer(7)));
    }
}
