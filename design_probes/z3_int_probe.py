import z3, time
def timed(name, *cons, to=120000):
    s = z3.Solver(); s.set("timeout", to); s.add(*cons); t=time.time(); r=s.check(); print(name, r, round(time.time()-t,2), s.model() if r==z3.sat else ''); return r
LO, HI = -2**63, 2**63-1
a,b = z3.Ints('a b')
rng = lambda x: z3.And(x >= LO, x <= HI)
wrap = lambda x: ((x + 2**63) % 2**64) - 2**63
# release-mode multiply: returns wrap(a*b). property: Ok(v) => v == a*b exactly
timed("int: wrapped mul can differ", rng(a), rng(b), wrap(a*b) != a*b)
# debug-mode: panic iff a*b out of range -> trivially aligned. Check checked_mul style fix proves:
timed("int: guarded mul exact", rng(a), rng(b), rng(a*b), wrap(a*b) != a*b)
# pow chain e=5: squaring (a^2)^2*a vs a*a*a*a*a
sq = (a*a); sq2 = sq*sq; p5 = sq2*a
timed("int: pow5 chains equal", rng(a), p5 != a*a*a*a*a)
# factorial 20 fits, 21 doesn't (concrete) skip. trunc div
def tdiv(x,y): return z3.If(x>=0, z3.If(y>0, x/y, -(x/(-y))), z3.If(y>0, -((-x)/y), (-x)/(-y)))
def trem(x,y): return x - tdiv(x,y)*y
q = tdiv(a,b); r = trem(a,b)
timed("int: tdiv characterisation", rng(a), rng(b), b != 0, z3.Not(z3.And(a == q*b + r, z3.If(r<0,-r,r) < z3.If(b<0,-b,b), z3.Or(r==0, (r<0)==(a<0)))), to=60000)
# FP: eval_number Ceil arm: f=ceil(n); if f in [MIN,MAX] -> Integer(n as i64) ; spec: Integer(ceil(n)) numerically
F=z3.Float64(); n=z3.FP('n',F); rm=z3.RNE()
f = z3.fpRoundToIntegral(z3.RTP(), n)
lo = z3.FPVal(-9223372036854775808.0,F); hi=z3.FPVal(9223372036854775808.0,F)
inr = z3.And(z3.fpLEQ(f,hi), z3.fpGEQ(f,lo))
def sat_cast(x):  # Rust `as i64`
    t = z3.fpRoundToIntegral(z3.RTZ(), x)
    return z3.If(z3.fpIsNaN(x), z3.BitVecVal(0,64), z3.If(z3.fpGEQ(t,hi), z3.BitVecVal(2**63-1,64), z3.If(z3.fpLEQ(t,lo), z3.BitVecVal(-2**63,64), z3.fpToSBV(z3.RTZ(), t, z3.BitVecSort(64)))))
impl = sat_cast(n)
spec = sat_cast(f)
timed("fp: number ceil arm wrong?", inr, impl != spec)
timed("fp: number ceil fixed (f as i64) but inclusive hi", inr, z3.Not(z3.fpEQ(z3.fpSignedToFP(rm, sat_cast(f), F), f)))
