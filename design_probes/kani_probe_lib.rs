#![allow(dead_code, unused_imports, static_mut_refs)]
#[path = "/repo/src/utils/mod.rs"]
pub mod utils;
pub mod eval_i64 {
    #[path = "/repo/src/eval_i64/ast.rs"] pub mod ast;
    #[path = "/repo/src/eval_i64/parser.rs"] pub mod parser;
    #[path = "/repo/src/eval_i64/token.rs"] pub mod token;
    #[path = "/repo/src/eval_i64/tokenizer.rs"] pub mod tokenizer;
    use crate::utils::ParseError;
    use ast::eval;
    use parser::Parser;
    pub fn eval_i64(expr: String, placeholder: i64) -> Result<i64, ParseError> {
        let expr = expr.split_whitespace().collect::<String>();
        let mut math_parser = Parser::new(&expr, Some(placeholder))?;
        let ast = math_parser.parse()?;
        Ok(eval(ast)?)
    }
}
pub mod eval_number {
    #[path = "/repo/src/eval_number/ast.rs"] pub mod ast;
    #[path = "/repo/src/eval_number/number.rs"] pub mod number;
    #[path = "/repo/src/eval_number/parser.rs"] pub mod parser;
    #[path = "/repo/src/eval_number/token.rs"] pub mod token;
    #[path = "/repo/src/eval_number/tokenizer.rs"] pub mod tokenizer;
    pub use number::Number;
}
pub mod eval_decimal {
    #[path = "/repo/src/eval_decimal/ast.rs"] pub mod ast;
    #[path = "/repo/src/eval_decimal/parser.rs"] pub mod parser;
    #[path = "/repo/src/eval_decimal/token.rs"] pub mod token;
    #[path = "/repo/src/eval_decimal/tokenizer.rs"] pub mod tokenizer;
}
#[cfg(kani)]
mod h {
    use crate::eval_i64::ast::{eval, Node};
    use crate::eval_number::Number;
    fn n(x: i64) -> Box<Node> { Box::new(Node::Number(x)) }
    #[kani::proof]
    fn i_mul() { let a: i64 = kani::any(); let b: i64 = kani::any();
        let r = eval(Node::Multiply(n(a), n(b)));
        match a.checked_mul(b) { Some(s) => assert!(matches!(r, Ok(v) if v == s)), None => assert!(r.is_err()) } }
    #[kani::proof]
    fn i_div() { let a: i64 = kani::any(); let b: i64 = kani::any();
        let r = eval(Node::Divide(n(a), n(b)));
        match a.checked_div(b) { Some(s) => assert!(matches!(r, Ok(v) if v == s)), None => assert!(r.is_err()) } }
    #[kani::proof]
    fn i_shl() { let a: i64 = kani::any(); let b: i64 = kani::any();
        let r = eval(Node::LeftShift(n(a), n(b)));
        if b < 0 || b > 63 { assert!(r.is_err()) } }
    #[kani::proof] #[kani::unwind(34)]
    fn i_pow() { let a: i64 = kani::any(); let b: i64 = kani::any();
        kani::assume(b >= 0 && b <= u32::MAX as i64);
        let r = eval(Node::Pow(n(a), n(b)));
        match a.checked_pow(b as u32) { Some(s) => assert!(matches!(r, Ok(v) if v == s)), None => assert!(r.is_err()) } }
    #[kani::proof] #[kani::unwind(23)]
    fn i_fact() { let a: i64 = kani::any();
        let r = eval(Node::Factorial(n(a)));
        std::mem::forget(r); }
    #[kani::proof]
    fn num_from() { let v: f64 = kani::any();
        let r = Number::from(v);
        let integral_in_range = v.is_finite() && v == v.trunc() && v >= -9223372036854775808.0 && v < 9223372036854775808.0;
        match r {
            Number::Integer(n) => { assert!(integral_in_range); assert!((n as f64) == v); assert!(n as i128 == v as i128); }
            Number::Float(f) => { assert!(!integral_in_range); assert!(f.to_bits() == v.to_bits()); }
        } }
    #[kani::proof] #[kani::unwind(12)]
    fn api_str() { let p: i64 = kani::any();
        let r = crate::eval_i64::eval_i64("1 + @*3".to_string(), p);
        match p.checked_mul(3).and_then(|x| x.checked_add(1)) { Some(s) => assert!(matches!(r, Ok(v) if v == s)), None => assert!(r.is_err()) } }
}
#[cfg(kani)]
mod h3 {
    use crate::eval_i64::ast::{eval, Node};
    use crate::eval_i64::parser::Parser;
    #[kani::proof] #[kani::unwind(8)]
    fn parse_str() { let p: i64 = kani::any();
        let ast = Parser::new("1+@*3", Some(p)).unwrap().parse().unwrap();
        let r = eval(ast);
        match p.checked_mul(3).and_then(|x| x.checked_add(1)) { Some(s) => assert!(matches!(r, Ok(v) if v == s)), None => assert!(r.is_err()) } }
    #[kani::proof] #[kani::unwind(8)]
    fn ws_only() { 
        let expr = "1 + @*3".to_string();
        let expr = expr.split_whitespace().collect::<String>();
        assert!(expr.len() == 5); }
}
#[cfg(kani)]
mod h4 {
    use crate::eval_i64::ast::{eval, Node};
    fn n(x: i64) -> Box<Node> { Box::new(Node::Number(x)) }
    #[kani::proof]
    fn i_div16() { let a: i16 = kani::any(); let b: i16 = kani::any();
        let (a, b) = (a as i64, b as i64);
        let r = eval(Node::Divide(n(a), n(b)));
        match a.checked_div(b) { Some(s) => assert!(matches!(r, Ok(v) if v == s)), None => assert!(r.is_err()) } }
    #[kani::proof]
    fn i_div_nz() { let a: i64 = kani::any(); let b: i64 = kani::any();
        kani::assume(b != 0 && !(a == i64::MIN && b == -1));
        let r = eval(Node::Divide(n(a), n(b))).unwrap();
        // characterisation without a second divider
        let rem = a.wrapping_sub(r.wrapping_mul(b));
        assert!((rem == 0 || (rem < 0) == (a < 0)) && (rem as i128).abs() < (b as i128).abs());
    }
    #[kani::proof] #[kani::unwind(5)]
    fn i_pow_small() { let a: i64 = kani::any(); let b: i64 = kani::any();
        kani::assume(b >= 0 && b <= 3);
        let r = eval(Node::Pow(n(a), n(b)));
        match a.checked_pow(b as u32) { Some(s) => assert!(matches!(r, Ok(v) if v == s)), None => assert!(r.is_err()) } }
    #[kani::proof] #[kani::unwind(5)]
    fn i_min3() { let a: i64 = kani::any(); let b: i64 = kani::any(); let c: i64 = kani::any();
        let r = eval(Node::Min(std::sync::Arc::new(vec![Node::Number(a), Node::Number(b), Node::Number(c)])));
        assert!(matches!(r, Ok(v) if v == a.min(b).min(c))); }
    #[kani::proof] #[kani::unwind(14)]
    fn i_gcd() { let a: i8 = kani::any(); let b: i8 = kani::any();
        let r = eval(Node::Gcd(std::sync::Arc::new(vec![Node::Number(a as i64), Node::Number(b as i64)])));
        if let Ok(g) = r { if a != 0 || b != 0 { assert!(g > 0 && (a as i64) % g == 0 && (b as i64) % g == 0); } }
    }
}
#[cfg(kani)]
mod h5 {
    use crate::eval_decimal::ast::{eval, Node};
    use rust_decimal::Decimal;
    fn n(x: Decimal) -> Box<Node> { Box::new(Node::Number(x)) }
    #[kani::proof] #[kani::unwind(6)]
    fn d_add() { let m1: i16 = kani::any(); let m2: i16 = kani::any(); let s1: u32 = kani::any(); let s2: u32 = kani::any();
        kani::assume(s1 <= 2 && s2 <= 2);
        let a = Decimal::new(m1 as i64, s1); let b = Decimal::new(m2 as i64, s2);
        let r = eval(Node::Add(n(a), n(b))).unwrap();
        // exact: r * 100 == m1*10^(2-s1) + m2*10^(2-s2)
        let p = |s: u32| -> i64 { match s { 0 => 100, 1 => 10, _ => 1 } };
        let expect = (m1 as i64) * p(s1) + (m2 as i64) * p(s2);
        assert!(r == Decimal::new(expect, 2));
    }
}
