import z3, time
print(z3.get_version_string())
# tiny check overhead
s = z3.Solver()
c = z3.BitVec('c', 32)
s.add(z3.ULE(c, 0x10FFFF))
t=time.time()
n=0
for k in range(2000):
    s.push(); s.add(c == (k % 128)); r = s.check(); s.pop(); n+=1
print("per check ms", (time.time()-t)/n*1000)
# FP queries
F = z3.Float64()
a, b = z3.FP('a', F), z3.FP('b', F)
rm = z3.RNE()
def timed(name, *cons):
    s = z3.Solver(); s.set("timeout", 120000); s.add(*cons); t=time.time(); r=s.check(); print(name, r, round(time.time()-t,2), (s.model() if r==z3.sat else ''))
timed("div same", z3.Not(z3.fpDiv(rm,a,b) == z3.fpDiv(rm,a,b)))
timed("div swapped", z3.Not(z3.fpEQ(z3.fpDiv(rm,a,b), z3.fpDiv(rm,b,a))), z3.Not(z3.fpIsNaN(a)), z3.Not(z3.fpIsNaN(b)))
timed("mul vs add", z3.Not(z3.fpEQ(z3.fpMul(rm,a,b), z3.fpAdd(rm,a,b))), z3.Not(z3.fpIsNaN(a)), z3.Not(z3.fpIsNaN(b)))
timed("a-b vs b-a", z3.Not(z3.fpEQ(z3.fpSub(rm,a,b), z3.fpSub(rm,b,a))), z3.Not(z3.fpIsNaN(a)), z3.Not(z3.fpIsNaN(b)))
# Number::from : floor-based
fl = z3.fpRoundToIntegral(z3.RTN(), a)
diff = z3.fpSub(rm, a, fl)
iszero = z3.fpEQ(diff, z3.FPVal(0.0, F))
lo = z3.FPVal(-9223372036854775808.0, F); hi = z3.FPVal(9223372036854775808.0, F)
inrange_impl = z3.And(z3.fpGEQ(fl, lo), z3.fpLEQ(fl, hi))
is_int_impl = z3.And(iszero, inrange_impl)
spec = z3.And(z3.Not(z3.fpIsNaN(a)), z3.Not(z3.fpIsInf(a)), z3.fpEQ(a, z3.fpRoundToIntegral(z3.RTZ(), a)), z3.fpGEQ(a, lo), z3.fpLT(a, hi))
timed("number_from spec mismatch", is_int_impl != spec)
inrange_fix = z3.And(z3.fpGEQ(fl, lo), z3.fpLT(fl, hi))
timed("number_from fixed", z3.And(iszero, inrange_fix) != spec)
# to_sbv numeric equality
n = z3.fpToSBV(z3.RTZ(), fl, z3.BitVecSort(64))
back = z3.fpSignedToFP(rm, n, F)
timed("number_from value eq (fixed)", z3.And(iszero, inrange_fix), z3.Not(z3.fpEQ(back, a)))
