import z3, time
def timed(name, *cons, to=120000):
    s = z3.Solver(); s.set("timeout", to); s.add(*cons); t=time.time(); r=s.check(); print(name, r, round(time.time()-t,2)); return r
a,b = z3.BitVecs('a b', 64)
wide = z3.SignExt(64,a)*z3.SignExt(64,b)
ovf1 = wide != z3.SignExt(64, z3.Extract(63,0,wide))
ovf2 = z3.Not(z3.And(z3.BVMulNoOverflow(a,b,True), z3.BVMulNoUnderflow(a,b)))
timed("mul ovf encodings equiv", ovf1 != ovf2)
# mutant: wrapping mul accepted as exact? find a,b where wrapping result != exact (i.e. overflow) 
timed("mul overflow exists", ovf1)
# division: real arm = sdiv with guards; mutant b/a
timed("sdiv vs swapped", b != 0, a != 0, z3.Not(a/b == b/a))
# shifts
timed("shl exact?", z3.ULT(b, 64), (a << b) >> b != a)
# pow by squaring, exponent 0..8 symbolic
e = z3.BitVec('e', 32)
def pow_sq(base, exp, iters):
    acc = z3.BitVecVal(1,64); ovf = z3.BoolVal(False)
    bs = base; ex = exp; bovf = z3.BoolVal(False)
    for i in range(iters):
        bit = z3.Extract(0,0,ex) == 1
        w = z3.SignExt(64,acc)*z3.SignExt(64,bs)
        o = w != z3.SignExt(64, z3.Extract(63,0,w))
        ovf = z3.If(bit, z3.Or(ovf, o, bovf), ovf)
        acc = z3.If(bit, z3.Extract(63,0,w), acc)
        ex = z3.LShR(ex, 1)
        w2 = z3.SignExt(64,bs)*z3.SignExt(64,bs)
        bovf = z3.Or(bovf, w2 != z3.SignExt(64, z3.Extract(63,0,w2)))
        bs = z3.Extract(63,0,w2)
    return acc, ovf
def pow_naive(base, exp, maxe):
    acc = z3.BitVecVal(1,64); ovf = z3.BoolVal(False)
    for i in range(maxe):
        active = z3.UGT(exp, i)
        w = z3.SignExt(64,acc)*z3.SignExt(64,base)
        o = w != z3.SignExt(64, z3.Extract(63,0,w))
        ovf = z3.If(active, z3.Or(ovf,o), ovf)
        acc = z3.If(active, z3.Extract(63,0,w), acc)
    return acc, ovf
for M in (4, 8):
    r1, o1 = pow_sq(a, e, 4)
    r2, o2 = pow_naive(a, e, M)
    timed(f"pow sq vs naive e<={M}", z3.ULE(e, M), z3.Or(o1 != o2, z3.And(z3.Not(o1), r1 != r2)), to=300000)
