"""Throwaway spike: path-forking symbolic interpreter for a MIR subset (enough for Tokenizer::next)."""
import re, sys, time, itertools, collections
import z3
import mirparse

BUILTIN_ENUMS = {
    'Option': ['None', 'Some'], 'Result': ['Ok', 'Err'], 'ControlFlow': ['Continue', 'Break'],
}

def load_enums(src_files):
    enums = dict(BUILTIN_ENUMS)
    for f in src_files:
        txt = open(f).read()
        for m in re.finditer(r'pub enum (\w+) \{(.*?)\n\}', txt, re.S):
            vs = []
            for line in m.group(2).split('\n'):
                line = line.strip()
                mm = re.match(r'(\w+)', line)
                if mm and not line.startswith(('#', '//')): vs.append(mm.group(1))
            enums[m.group(1)] = vs
    return enums

class Panic(Exception): pass
class Unsupported(Exception): pass

def is_sym(v): return isinstance(v, z3.ExprRef)

class State:
    __slots__ = ('mem', 'frames', 'uid')
    def __init__(self): self.mem = {}; self.frames = []; self.uid = 0
    def fork(self):
        s = State(); s.mem = dict(self.mem); s.frames = [dict(f) for f in self.frames]; s.uid = self.uid; return s

def adt(ty, variant, fields=()): return ('adt', ty, variant, tuple(fields))
UNIT = ('tuple', ())

class Engine:
    def __init__(self, fns, promoted, allocs, enums):
        self.fns = fns; self.promoted = promoted; self.allocs = allocs; self.enums = enums
        self.solver = z3.Solver()
        self.nq = 0; self.tq = 0.0; self.npaths = 0; self.nsteps = 0
        self.results = []
        self.fresh = itertools.count()

    # ---- solver ---------------------------------------------------------
    def feasible(self, cond):
        if cond is True: return True
        if cond is False: return False
        t = time.time(); self.solver.push(); self.solver.add(cond); r = self.solver.check(); self.solver.pop()
        self.nq += 1; self.tq += time.time() - t
        return r == z3.sat

    # ---- memory ---------------------------------------------------------
    def read_path(self, v, path):
        for p in path:
            if v[0] == 'adt': v = v[3][p]
            elif v[0] == 'tuple': v = v[1][p]
            else: raise Unsupported('read_path on ' + str(v[0]))
        return v
    def write_path(self, v, path, new):
        if not path: return new
        p = path[0]
        if v is None: raise Unsupported('write into uninit')
        if v[0] == 'adt':
            f = list(v[3]); f[p] = self.write_path(f[p], path[1:], new); return ('adt', v[1], v[2], tuple(f))
        if v[0] == 'tuple':
            f = list(v[1]); f[p] = self.write_path(f[p], path[1:], new); return ('tuple', tuple(f))
        raise Unsupported('write_path')
    def resolve(self, st, fr, place):
        k = place[0]
        if k == 'local': return ((fr['uid'], place[1]), ())
        if k == 'deref':
            r = self.load(st, fr, place[1])
            assert r[0] == 'ref', r
            return (r[1], r[2])
        if k == 'field':
            key, path = self.resolve(st, fr, place[1]); return (key, path + (place[2],))
        if k == 'downcast':
            return self.resolve(st, fr, place[1])
        raise Unsupported('place ' + k)
    def load(self, st, fr, place):
        key, path = self.resolve(st, fr, place)
        return self.read_path(st.mem[key], path)
    def store(self, st, fr, place, val):
        key, path = self.resolve(st, fr, place)
        if path: st.mem[key] = self.write_path(st.mem.get(key), path, val)
        else: st.mem[key] = val

    # ---- constants ------------------------------------------------------
    def const(self, st, fr, c):
        m = re.match(r'^(-?\d+)_(i8|i16|i32|i64|i128|isize|u8|u16|u32|u64|u128|usize)$', c)
        if m: return int(m.group(1))
        if c in ('true', 'false'): return c == 'true'
        m = re.match(r"^'(.*)'$", c, re.S)
        if m:
            s = m.group(1)
            if s.startswith('\\u{'): return int(s[3:-1], 16)
            if s.startswith('\\'): return ord({'n': '\n', 't': '\t', "'": "'", '\\': '\\', 'r': '\r', '0': '\0'}[s[1]])
            return ord(s)
        m = re.match(r'^"(.*)"$', c, re.S)
        if m: return ('str', tuple(ord(ch) for ch in m.group(1)))
        if 'promoted[' in c:
            idx = re.search(r'promoted\[(\d+)\]', c).group(1)
            body = self.promoted[fr['fn'].name + '::promoted[' + idx + ']']
            st.uid += 1; pfr = {'uid': st.uid, 'fn': body, 'bb': 'bb0', 'cont': None}
            for s_ in body.blocks['bb0'].stmts:
                self.store(st, pfr, s_[1], self.rvalue(st, pfr, s_[2]))
            return st.mem[(pfr['uid'], 0)]
        if c.startswith('ZeroSized'): return ('zst', c)
        raise Unsupported('const ' + c)

    def operand(self, st, fr, op):
        if op[0] in ('move', 'copy'): return self.load(st, fr, op[1])
        if op[0] == 'const': return self.const(st, fr, op[1])
        if op[0] == 'fnitem': return ('fn', op[1])
        raise Unsupported(op[0])

    # ---- rvalues --------------------------------------------------------
    def rvalue(self, st, fr, rv):
        k = rv[0]
        if k == 'use': return self.operand(st, fr, rv[1])
        if k == 'ref' or k == 'rawptr':
            key, path = self.resolve(st, fr, rv[1]); return ('ref', key, path)
        if k == 'discr':
            v = self.load(st, fr, rv[1]); assert v[0] == 'adt', v
            return self.enums[v[1]].index(v[2])
        if k == 'adt':
            path = re.sub(r'::<[^<>]*(<[^<>]*(<[^<>]*>[^<>]*)*>[^<>]*)*>', '', rv[1])
            segs = path.split('::'); variant = segs[-1]; ty = segs[-2] if len(segs) > 1 else segs[-1]
            if ty not in self.enums: ty, variant = variant, None   # struct ctor
            return adt(ty, variant, [self.operand(st, fr, a) for a in rv[2]])
        if k == 'struct':
            ty = rv[1].split('::')[-1].split('<')[0]
            return adt(ty, None, [self.operand(st, fr, v) for _, v in rv[2]])
        if k == 'tuple': return ('tuple', tuple(self.operand(st, fr, a) for a in rv[1]))
        if k == 'binop':
            a = self.operand(st, fr, rv[2]); b = self.operand(st, fr, rv[3]); o = rv[1]
            if o == 'Le': return a <= b
            if o == 'Lt': return a < b
            if o == 'Ge': return a >= b
            if o == 'Gt': return a > b
            if o == 'Eq': return a == b
            if o == 'Ne': return a != b
            raise Unsupported('binop ' + o)
        if k == 'cast': return self.operand(st, fr, rv[1])
        raise Unsupported('rvalue ' + k)

    # ---- running --------------------------------------------------------
    def call_fn(self, st, fname, args, cont):
        """push a frame for crate function; cont(st, retval) called on return"""
        f = self.fns[fname][0]
        st.uid += 1
        fr = {'uid': st.uid, 'fn': f, 'bb': 'bb0', 'cont': cont}
        for i, a in enumerate(args): st.mem[(fr['uid'], i + 1)] = a
        st.frames.append(fr)

    def run(self, st):
        """run state to completion, forking recursively (DFS)"""
        while st.frames:
            fr = st.frames[-1]
            blk = fr['fn'].blocks[fr['bb']]
            for s in blk.stmts:
                self.nsteps += 1
                if s[0] == 'assign': self.store(st, fr, s[1], self.rvalue(st, fr, s[2]))
                else: raise Unsupported('stmt ' + s[0])
            t = blk.term; self.nsteps += 1
            k = t[0]
            if k == 'goto': fr['bb'] = t[1]
            elif k == 'return':
                ret = st.mem.get((fr['uid'], 0), UNIT)
                st.frames.pop()
                cont = fr['cont']
                if cont is None:
                    self.finish(st, ('ret', ret)); return
                cont(st, ret)
            elif k == 'drop': fr['bb'] = t[2]['return']
            elif k == 'unreachable': raise Unsupported('reached unreachable')
            elif k == 'switch':
                v = self.operand(st, fr, t[1]); tg = t[2]
                if not is_sym(v):
                    if v is True: v = 1
                    if v is False: v = 0
                    fr['bb'] = tg.get(str(v), tg.get('otherwise'))
                    continue
                # group by target block
                groups = collections.OrderedDict()
                vals = []
                isbool = z3.is_bool(v)
                for kk, bb in tg.items():
                    if kk == 'otherwise': continue
                    vals.append(int(kk)); groups.setdefault(bb, []).append(int(kk))
                branches = []
                for bb, vs in groups.items():
                    if isbool: cond = z3.Or([v if x else z3.Not(v) for x in vs])
                    else: cond = z3.Or([v == x for x in vs])
                    branches.append((bb, cond))
                if 'otherwise' in tg:
                    if isbool: cond = z3.And([z3.Not(v) if x else v for x in vals])
                    else: cond = z3.And([v != x for x in vals])
                    branches.append((tg['otherwise'], cond))
                live = [(bb, c) for bb, c in branches if self.feasible(c)]
                for i, (bb, c) in enumerate(live):
                    s2 = st if i == len(live) - 1 else st.fork()
                    s2.frames[-1]['bb'] = bb
                    self.solver.push(); self.solver.add(c)
                    try: self.run(s2)
                    finally: self.solver.pop()
                return
            elif k == 'call':
                _, dest, callee, args, tg = t
                argv = [self.operand(st, fr, a) for a in args]
                name = re.sub(r"<'_>|<'a>", '', callee)
                cands = [n for n in self.fns if self.match_fn(n, name)]
                if cands:
                    def cont(st2, ret, fr=fr, dest=dest, tg=tg):
                        self.store(st2, fr, dest, ret); fr['bb'] = tg['return']
                    # continuation frames are dicts copied on fork: cont closes over the *original* fr dict, so rebind by uid
                    uid = fr['uid']
                    def cont(st2, ret, uid=uid, dest=dest, tg=tg):
                        fr2 = next(f for f in st2.frames if f['uid'] == uid)
                        self.store(st2, fr2, dest, ret); fr2['bb'] = tg['return']
                    self.call_fn(st, cands[0], argv, cont)
                    continue
                outs = self.summary(st, fr, name, argv)
                # outs: list of (cond, value or Panic)
                live = [(c, v) for c, v in outs if self.feasible(c)]
                for i, (c, v) in enumerate(live):
                    s2 = st if i == len(live) - 1 else st.fork()
                    fr2 = s2.frames[-1]
                    if c is not True: self.solver.push(); self.solver.add(c)
                    try:
                        if isinstance(v, Panic): self.finish(s2, ('panic', str(v)))
                        else:
                            if callable(v): v = v(s2)
                            self.store(s2, fr2, dest, v); fr2['bb'] = tg['return']
                            if len(live) > 1: self.run(s2)
                    finally:
                        if c is not True: self.solver.pop()
                if len(live) > 1 or any(isinstance(v, Panic) for _, v in live): return
            else: raise Unsupported('term ' + k)

    def match_fn(self, defname, callname):
        # crate fn call names: "deserialize_superscript_number", "superscript_digit_to_digit", "eval_i64::...::new"
        d = defname.split('::')[-1];
        if '<impl at' in defname: return False
        return defname == callname or defname.endswith('::' + callname)

    def finish(self, st, res):
        self.npaths += 1
        assert self.solver.check() == z3.sat
        self.results.append((res, self.solver.model(), []))

    # ---- summaries ------------------------------------------------------
    def rd(self, st, ref): return self.read_path(st.mem[ref[1]], ref[2])
    def wr(self, st, ref, val):
        if ref[2]: st.mem[ref[1]] = self.write_path(st.mem[ref[1]], ref[2], val)
        else: st.mem[ref[1]] = val

    def str_eq(self, a, b):
        if len(a) != len(b): return False
        conds = []
        for x, y in zip(a, b):
            if is_sym(x) or is_sym(y): conds.append(x == y)
            elif x != y: return False
        if not conds: return True
        return z3.And(conds) if len(conds) > 1 else conds[0]

    def summary(self, st, fr, name, a):
        T = True
        # Peekable<Chars> = ('peek', chars, pos, peeked) ; peeked: None or Option value
        if name == '<Peekable<Chars> as Iterator>::next':
            it = self.rd(st, a[0])
            _, chars, pos, pk = it
            if pk is not None:
                self.wr(st, a[0], ('peek', chars, pos, None)); return [(T, pk)]
            if pos < len(chars):
                self.wr(st, a[0], ('peek', chars, pos + 1, None)); return [(T, adt('Option', 'Some', [chars[pos]]))]
            return [(T, adt('Option', 'None'))]
        if name == 'Peekable::<Chars>::peek':
            it = self.rd(st, a[0]); _, chars, pos, pk = it
            if pk is None:
                if pos < len(chars): pk = adt('Option', 'Some', [chars[pos]]); pos += 1
                else: pk = adt('Option', 'None')
                self.wr(st, a[0], ('peek', chars, pos, pk))
            if pk[2] == 'None': return [(T, adt('Option', 'None'))]
            # reference to the peeked char: materialise in a fresh cell
            st.uid += 1; key = (st.uid, 0); st.mem[key] = pk[3][0]
            return [(T, adt('Option', 'Some', [('ref', key, ())]))]
        if name == '<Peekable<Chars> as Clone>::clone': return [(T, self.rd(st, a[0]))]
        if name in ('<Peekable<Chars> as Iterator>::take', '<&mut Peekable<Chars> as Iterator>::take'): return [(T, ('take', a[0], a[1]))]
        if name == '<Peekable<Chars> as Iterator>::by_ref': return [(T, a[0])]
        if name.startswith('<std::iter::Take<Peekable<Chars>> as Iterator>::collect::<String>'):
            _, it, n = a[0]; _, chars, pos, pk = it
            seq = []
            if pk is not None:
                if pk[2] == 'Some': seq.append(pk[3][0])
            seq += list(chars[pos:])
            return [(T, ('str', tuple(seq[:n])))]
        if name.startswith('<std::iter::Take<&mut Peekable<Chars>> as Iterator>::for_each'):
            _, ref, n = a[0]; it = self.rd(st, ref); _, chars, pos, pk = it
            k = n
            if pk is not None:
                if k > 0: pk = None; k -= 1
            pos = min(len(chars), pos + k)
            self.wr(st, ref, ('peek', chars, pos, pk)); return [(T, UNIT)]
        if name in ('<String as Deref>::deref', 'String::as_str'):
            return [(T, self.rd(st, a[0]))]
        if name == '<str as PartialEq>::eq':
            x = a[0] if a[0][0] == 'str' else self.rd(st, a[0]); y = a[1] if a[1][0] == 'str' else self.rd(st, a[1])
            return [(T, self.str_eq(x[1], y[1]))]
        if name == '<String as PartialEq<&str>>::eq':
            x = self.rd(st, a[0]); y = self.rd(st, a[1])
            if y[0] == 'ref': y = self.rd(st, y)
            return [(T, self.str_eq(x[1], y[1]))]
        if name == '<Option<char> as Try>::branch':
            v = a[0]
            if v[2] == 'Some': return [(T, adt('ControlFlow', 'Continue', [v[3][0]]))]
            return [(T, adt('ControlFlow', 'Break', [adt('Option', 'None')]))]
        if name.startswith('<Option<') and 'FromResidual' in name: return [(T, adt('Option', 'None'))]
        if name == '<char as ToString>::to_string': return [(T, ('str', (self.rd(st, a[0]),)))]
        if name == 'String::push':
            s = self.rd(st, a[0]); self.wr(st, a[0], ('str', s[1] + (a[1],))); return [(T, UNIT)]
        if name == 'char::methods::<impl char>::is_ascii_digit':
            c = self.rd(st, a[0]); return [(T, z3.And(c >= 48, c <= 57) if is_sym(c) else (48 <= c <= 57))]
        if name == 'core::str::<impl str>::parse::<i64>':
            s = a[0][1] if a[0][0] == 'str' else self.rd(st, a[0])[1]
            # all digits by construction here; value as Int term
            if not s: return [(T, adt('Result', 'Err', [('opaque',)]))]
            val = 0
            for c in s: val = val * 10 + (c - 48)
            MAXD = [ord(ch) - 48 for ch in '9223372036854775807']
            ds = [c - 48 for c in s]
            if len(ds) <= 18: fits = True
            else:
                k = len(ds) - 19
                lead = [d == 0 for d in ds[:k]]
                rest = ds[k:]
                le = True
                for d, m in reversed(list(zip(rest, MAXD))):
                    le = z3.Or(d < m, z3.And(d == m, le))
                fits = z3.And(lead + [le])
            if not is_sym(fits): return [(T, adt('Result', 'Ok' if fits else 'Err', [val if fits else ('opaque',)]))]
            return [(fits, adt('Result', 'Ok', [val])), (z3.Not(fits), adt('Result', 'Err', [('opaque',)]))]
        if name == 'Result::<i64, ParseIntError>::unwrap':
            v = a[0]
            if v[2] == 'Ok': return [(T, v[3][0])]
            return [(T, Panic('unwrap on Err (parse::<i64>)'))]
        if name.startswith('Option::<char>::map::<String'):
            v = a[0]
            if v[2] == 'None': return [(T, adt('Option', 'None'))]
            return [(T, adt('Option', 'Some', [('str', (v[3][0],))]))]   # closure = to_string
        if name == 'Option::<String>::unwrap_or_default':
            v = a[0]; return [(T, v[3][0] if v[2] == 'Some' else ('str', ()))]
        raise Unsupported('callee ' + name)

def main():
    L = int(sys.argv[1]) if len(sys.argv) > 1 else 3
    fns, promoted, allocs = mirparse.parse_mir(open('/work/probe/mir/all.mir').read())
    enums = load_enums(['/repo/src/eval_i64/token.rs'])
    nextfn = [k for k in fns if k.startswith('eval_i64::tokenizer::') and k.endswith('::next')][0]
    eng = Engine(fns, promoted, allocs, enums)
    chars = [z3.Int('c%d' % i) for i in range(L)]
    for c in chars: eng.solver.add(c >= 0, c <= 0x10FFFF, z3.Or(c < 0xD800, c > 0xDFFF))
    import os
    if os.environ.get('DIGITS'):
        for c in chars: eng.solver.add(c >= 48, c <= 57)
    st = State()
    st.uid += 1; tk = (st.uid, 0)
    st.mem[tk] = adt('Tokenizer', None, [('peek', tuple(chars), 0, None)])
    t0 = time.time()
    eng.call_fn(st, nextfn, [('ref', tk, ())], None)
    try:
        eng.run(st)
    except Unsupported as e:
        print('UNSUPPORTED', e)
    dt = time.time() - t0
    kinds = collections.Counter()
    for res, model, pc in eng.results:
        if res[0] == 'panic': kinds['PANIC ' + res[1]] += 1
        else:
            v = res[1]
            if v[2] == 'None': kinds['None'] += 1
            else:
                tok = v[3][0]; kinds[tok[2] + (':' + tok[3][0][2] if tok[2] == 'ExplicitFunction' else '')] += 1
    print('len', L, 'paths', eng.npaths, 'steps', eng.nsteps, 'queries', eng.nq, 'solver_s', round(eng.tq, 2), 'wall_s', round(dt, 2))
    for k, c in sorted(kinds.items()): print('  ', c, k)
    for res, model, pc in eng.results:
        if res[0] == 'panic':
            s = ''.join(chr(model.eval(c, model_completion=True).as_long()) for c in chars)
            print('  panic witness:', repr(s), res[1]); break

if __name__ == '__main__': main()
