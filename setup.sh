#!/bin/bash
# Offline setup: warm the dependency caches used by the MIR dump and the native runner build.
set -e
cd "$(dirname "$0")"
export CARGO_NET_OFFLINE=true
python3-vt -m mirsym.cli setup
