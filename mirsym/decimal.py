"""E layer for eval_decimal: Decimal values are abstract (uninterpreted sort), rust_decimal operations are uninterpreted
functions with their documented failure modes (panic on overflow / zero divisor / outside the domain for the plain
operators and maths methods, None for the checked forms).  A path on which a panicking form is reached is confirmed
natively by searching a pool of boundary decimals for a witness."""
import itertools
import z3

from .harness import *
from .summaries import DecSort

POOL = ['0', '1', '-1', '2', '0.5', '-0.5', '79228162514264337593543950335', '-79228162514264337593543950335', '1000', '0.0000000000000000000000000001', '3', '-2.5', '150',
        '7000000000000000000000000000.5', '5000000000000000000000000000.0', '2.9999999999999999999999999999', '10000000000000000000000000000', '0.3', '0.1', '1.10']
NATIVE_OPS = {'Add': 'add', 'Subtract': 'sub', 'Multiply': 'mul', 'Divide': 'div', 'Modulo': 'rem', 'Negative': 'neg', 'Abs': 'abs', 'Floor': 'floor', 'Ceil': 'ceil', 'Round': 'round',
              'Truncate': 'trunc', 'Sign': 'signum', 'Ln': 'ln', 'Exp': 'exp', 'Sqrt': 'sqrt', 'Pow': 'powd'}


def dec_value(payload):
    """the rational value of a runner decimal `dm<coefficient>e<scale>`"""
    import re, fractions
    m = re.match(r'^dm(-?\d+)e(\d+)$', payload.strip())
    if not m: return payload
    return fractions.Fraction(int(m.group(1)), 10 ** int(m.group(2)))


class DecLeaf(Leaf):
    def __init__(self, name):
        self.ev = 'decimal'; self.name = name; self.variant = None
        self.var = z3.Const(name, DecSort); self.constraint = True

    def value(self): return ('dec', self.var)

    def render(self, cz): return 'd1'


class DecimalArm(EvalArm):
    """ast::eval of eval_decimal on one node with abstract Decimal leaves; judged for panic-freedom (C01) and for the
    operation applied (C07): the result term must be the rust_decimal operation of the same meaning on the operands in order"""

    def __init__(self, prop, kind, shape, ref_fn, oc=True, label=None, limits=None):
        EvalArm.__init__(self, prop, 'decimal', kind, shape, ref_fn, oc=oc, label=label or 'decimal/%s/%s' % (kind, 'dbg' if oc else 'rel'), limits=limits or {'steps': 3000, 'timeout_ms': 20000})

    def render(self, v, cz): return 'dec?'

    def setup(self, ctx, prog, e, st, runner):
        tree, sexpr = build_tree(st, 'decimal', self.shape)
        leaves = leaves_of(self.shape)
        entry = prog.entry('decimal', 'eval')
        ob = self
        self._sexpr_with = lambda vals: self.sexpr_concrete(vals)
        state = {'last': None}

        def native_of(cz):
            # abstract decimals have no model value: search the pool for a witness of the outcome under confirmation
            want = ob.want_status
            found = None
            ob.witness_deviates = None
            for combo in itertools.product(POOL, repeat=len([l for l in leaves if isinstance(l, DecLeaf)])):
                sx = ob.sexpr_concrete(combo)
                stt, payload, us = runner.request('AST', 'decimal', sx, timeout=3.0)
                if found is None: found = (sx, stt, payload, us)
                if ob.differential and getattr(ob, '_confirming', False) and stt in ('OK', 'ERR'):
                    # a witness must itself depart from the rust_decimal operations of the same meaning, computed natively on the same operands
                    refn = ob.native_reference(runner, combo)
                    if refn is None: continue
                    if (stt, dec_value(payload) if stt == 'OK' else '') == (refn[0], dec_value(refn[1]) if refn[0] == 'OK' else ''): continue      # same rational value (the scale may differ)
                    if want is None or stt == want:
                        ob.witness_deviates = True
                        return sx, stt, payload + ('' if stt == 'OK' else ' (rust_decimal on the same operands: %s)' % ' '.join(refn)), us
                    continue
                if want is None or stt == want: return sx, stt, payload, us
            return found[0], 'NOWITNESS', found[1] + ' ' + found[2], 0
        self.want_status = None
        return entry, [tree], leaves, native_of

    differential = False      # C07: violations are confirmed differentially against rust_decimal called directly

    def native_reference(self, runner, vals):
        """('OK', payload) | ('ERR', '') of the shape computed with rust_decimal's own operators on the pool values, or None when the shape has other nodes"""
        it = iter(vals)

        def rec(shape):
            if isinstance(shape, DecLeaf): return 'd' + next(it)
            if isinstance(shape, Leaf): return 'd' + str(shape.var)
            if (shape[0] not in NATIVE_OPS and shape[0] not in ('Lb', 'Log', 'Exp2', 'Root')) or (len(shape) == 2 and isinstance(shape[1], list)): raise KeyError(shape[0])
            args = []
            for c in shape[1:]:
                a = rec(c)
                if a is None: return None
                args.append(a)
            def dec(op, *xs):
                if any(x is None for x in xs): return None
                stt, payload, _ = runner.request('DEC', op, *xs)
                return payload if stt == 'OK' else None          # panic / None: the operation is not defined on these operands
            k = shape[0]
            if k == 'Lb': return dec('div', dec('ln', args[0]), dec('ln', 'd2'))
            if k == 'Log': return dec('div', dec('ln', args[0]), dec('ln', args[1]))
            if k == 'Exp2': return dec('powd', 'd2', args[0])
            if k == 'Root': return dec('powd', args[1], dec('div', 'd1', args[0]))
            return dec(NATIVE_OPS[k], *args)
        try:
            r = rec(self.shape)
        except KeyError:
            return None
        return ('ERR', '') if r is None else ('OK', r)

    def sexpr_concrete(self, vals):
        it = iter(vals)

        def rec(shape):
            if isinstance(shape, DecLeaf): return '(Number d%s)' % next(it)
            if isinstance(shape, Leaf): return '(Number d%s)' % str(shape.var)
            if len(shape) == 2 and isinstance(shape[1], list): return '(%s%s)' % (shape[0], ''.join(' ' + rec(c) for c in shape[1]))
            return '(%s %s)' % (shape[0], ' '.join(rec(c) for c in shape[1:]))
        return rec(self.shape)

    def outcome_of(self, p, e):
        out = impl_outcome(p)
        self.want_status = {'panic': 'PANIC', 'limit': 'TIMEOUT', 'err': 'ERR', 'ok': 'OK'}[out[0]]
        return out
