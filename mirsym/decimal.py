"""E layer for eval_decimal: Decimal values are abstract (uninterpreted sort), rust_decimal operations are uninterpreted
functions with their documented failure modes (panic on overflow / zero divisor / outside the domain for the plain
operators and maths methods, None for the checked forms).  A path on which a panicking form is reached is confirmed
natively by searching a pool of boundary decimals for a witness."""
import itertools
import z3

from .harness import *
from .summaries import DecSort

POOL = ['0', '1', '-1', '2', '0.5', '-0.5', '79228162514264337593543950335', '-79228162514264337593543950335', '1000', '0.0000000000000000000000000001', '3', '-2.5', '150']


class DecLeaf(Leaf):
    def __init__(self, name):
        self.ev = 'decimal'; self.name = name; self.variant = None
        self.var = z3.Const(name, DecSort); self.constraint = True

    def value(self): return ('dec', self.var)

    def render(self, cz): return 'd1'


class DecimalArm(EvalArm):
    """ast::eval of eval_decimal on one node with abstract Decimal leaves; judged for panic-freedom (C01) and for the
    operation applied (C07): the result term must be the rust_decimal operation of the same meaning on the operands in order"""

    def __init__(self, prop, kind, shape, ref_fn, oc=True, label=None, limits=None):
        EvalArm.__init__(self, prop, 'decimal', kind, shape, ref_fn, oc=oc, label=label or 'decimal/%s/%s' % (kind, 'dbg' if oc else 'rel'), limits=limits or {'steps': 3000, 'timeout_ms': 20000})

    def render(self, v, cz): return 'dec?'

    def setup(self, ctx, prog, e, st, runner):
        tree, sexpr = build_tree(st, 'decimal', self.shape)
        leaves = leaves_of(self.shape)
        entry = prog.entry('decimal', 'eval')
        ob = self
        self._sexpr_with = lambda vals: self.sexpr_concrete(vals)
        state = {'last': None}

        def native_of(cz):
            # abstract decimals have no model value: search the pool for a witness of the outcome under confirmation
            want = ob.want_status
            found = None
            for combo in itertools.product(POOL, repeat=len([l for l in leaves if isinstance(l, DecLeaf)])):
                sx = ob.sexpr_concrete(combo)
                stt, payload, us = runner.request('AST', 'decimal', sx, timeout=3.0)
                if found is None: found = (sx, stt, payload, us)
                if want is None or stt == want: return sx, stt, payload, us
            return found[0], 'NOWITNESS', found[1] + ' ' + found[2], 0
        self.want_status = None
        return entry, [tree], leaves, native_of

    def sexpr_concrete(self, vals):
        it = iter(vals)

        def rec(shape):
            if isinstance(shape, DecLeaf): return '(Number d%s)' % next(it)
            if isinstance(shape, Leaf): return '(Number d%s)' % str(shape.var)
            if len(shape) == 2 and isinstance(shape[1], list): return '(%s%s)' % (shape[0], ''.join(' ' + rec(c) for c in shape[1]))
            return '(%s %s)' % (shape[0], ' '.join(rec(c) for c in shape[1:]))
        return rec(self.shape)

    def outcome_of(self, p, e):
        out = impl_outcome(p)
        self.want_status = {'panic': 'PANIC', 'limit': 'TIMEOUT', 'err': 'ERR', 'ok': 'OK'}[out[0]]
        return out
