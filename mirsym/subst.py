"""Obligations that relate several explorations of ast::eval: compositionality (C20) and agreement between evaluators (C15)."""
import time, traceback
import z3

from .harness import *
from .player import leaf_equal
from . import native


def explore_tree(ctx, prog, e, ev, shape, assume=None):
    """all paths of ast::eval on a tree: list of (pc term, outcome)"""
    st = eng_mod.State()
    tree, sexpr = build_tree(st, ev, shape)
    got = []
    e.push()
    try:
        for lf in leaves_of(shape): e.assume(lf.constraint)
        if assume is not None: e.assume(assume)
        base = len(e.path_condition())
        def on_path(p):
            got.append((b_and(*p.pc[base:]), impl_outcome(p)))
        e.explore(prog.entry(ev, 'eval'), [tree], on_path, state=st)
    finally:
        e.pop()
    return got, sexpr


def subst_value(v, var, val):
    """substitute the symbolic leaf `var` by the term `val` inside a result value"""
    if is_sym(v):
        if isinstance(var, tuple):        # complex leaf: substitute both components
            return z3.substitute(v, (var[1], val[1]), (var[2], val[2]))
        return z3.substitute(v, (var, val))
    if isinstance(v, tuple):
        return tuple(subst_value(x, var, val) for x in v)
    if isinstance(v, dict):
        return {k: subst_value(x, var, val) for k, x in v.items()}
    return v


INEXACT_POOL = [0.1, 3.0, -0.3, 10.0, -1.0, 0.0, 1.0, 1e308, 1e-300, 0.30000000000000004, 2.0, 0.7, -0.0, float('inf')]


class CompositionOb(Obligation):
    """eval(Outer(.., Inner(x..), ..)) == eval(Outer(.., Number(v), ..))[v := value of Inner(x..)] whenever Inner evaluates to Ok,
    and Err when Inner is Err"""

    def __init__(self, prop, ev, outer, pos, inner, oc=True, label=None, mode='int'):
        Obligation.__init__(self, label or '%s/compose/%s[%d]<-%s/%s' % (ev, outer, pos, inner, 'dbg' if oc else 'rel'))
        self.prop = prop; self.ev = ev; self.outer = outer; self.pos = pos; self.inner = inner; self.oc = oc; self.mode = mode

    def leaf(self, name, variant=None):
        if self.ev == 'number': return Leaf('number', name, variant or 'Float', 'bv')
        return Leaf(self.ev, name, None, self.mode)

    def run(self, ctx):
        ev = self.ev
        prog = ctx.prog(self.oc)
        nk = prog.enum_key('number::Number')
        if nk: sem.set_number_variants(prog.enums[nk])
        key = 'eval_%s::ast::Node' % ev
        res = dict(name=self.name, paths=0, obligations=0, discharged=0, confirmed=[], inconclusive=[], replayed=0, replay_mismatch=[], samples=[])
        e = eng_mod.Engine(prog, step_limit=3000, timeout_ms=20000, seed=ctx.seed)
        e.deadline = time.time() + 600
        profile = 'dev' if self.oc else 'release'; runner = ctx.runner(profile)
        t0 = time.time()
        try:
            ar_o = len(prog.enum_fields[prog.enum_key(key)][self.outer]); ar_i = len(prog.enum_fields[prog.enum_key(key)][self.inner])
            xs = [self.leaf('x%d' % i) for i in range(ar_i)]
            zs = [self.leaf('z%d' % i) for i in range(ar_o)]
            v = self.leaf('v')
            inner_shape = (self.inner,) + tuple(xs)
            a_children = list(zs); a_children[self.pos] = inner_shape
            b_children = list(zs); b_children[self.pos] = v
            A, sx = explore_tree(ctx, prog, e, ev, (self.outer,) + tuple(a_children))
            I, self._sxI = explore_tree(ctx, prog, e, ev, inner_shape)
            B, self._sxB = explore_tree(ctx, prog, e, ev, (self.outer,) + tuple(b_children))
            self._vtext = [None]
            v.render = lambda cz, box=self._vtext: box[0]          # natively the leaf carries the native value of the subexpression
            res['paths'] = len(A) + len(I) + len(B)
            vvar = v.var
            tried_pool = []
            for pci, oi in I:
                for pca, oa in A:
                    if e.check(pci, pca) != z3.sat: continue
                    if oi[0] in ('panic', 'limit') or oa[0] in ('panic', 'limit'): continue      # C01 / C02
                    if oi[0] == 'err':
                        res['obligations'] += 1
                        if oa[0] == 'err': res['discharged'] += 1
                        else: res['confirmed'].append(self.viol(e, runner, sx, [pci, pca], 'a failing subexpression does not make the enclosing node fail', profile))
                        continue
                    w = oi[1]
                    if ev == 'number':
                        if w[0] == 'sadt' or w[2] != 'Float': continue       # the placeholder leaf of this obligation is a Float; other variants are separate obligations
                        wv = w[3][0]
                    else: wv = w
                    for pcb, ob_ in B:
                        pcb2 = subst_value(pcb, vvar, wv) if is_sym(pcb) else pcb
                        if e.check(pci, pca, pcb2) != z3.sat: continue
                        res['obligations'] += 1
                        if ob_[0] in ('panic', 'limit'): res['discharged'] += 1; continue
                        if oa[0] != ob_[0]:
                            res['confirmed'].append(self.viol(e, runner, sx, [pci, pca, pcb2], 'outcome differs from evaluating the node on the value of the subexpression', profile)); continue
                        if oa[0] == 'err': res['discharged'] += 1; continue
                        bv = subst_value(ob_[1], vvar, wv)
                        same = leaf_equal(ev, oa[1], bv) if ev not in ('decimal',) else True
                        if same is True: res['discharged'] += 1; continue
                        r = e.check(pci, pca, pcb2, b_not(same)) if same is not False else z3.sat
                        if r == z3.unsat: res['discharged'] += 1
                        elif r == z3.unknown:
                            # the solver gave up on the equality (typically a product of two symbolic doubles): look for a witness among boundary / inexact
                            # operand values on the compiled code; none found = left open, never reported as held
                            if not tried_pool:
                                tried_pool.append(1)
                                c = self.pool_viol(e, runner, sx, xs + [z for k, z in enumerate(zs) if k != self.pos], 'value differs from evaluating the node on the value of the subexpression', profile, res)
                                if c: res['confirmed'].append(c); continue
                            res['inconclusive'].append('%s: solver unknown' % self.name)
                        else: res['confirmed'].append(self.viol(e, runner, sx, [pci, pca, pcb2] + ([b_not(same)] if same is not False else []), 'value differs from evaluating the node on the value of the subexpression', profile))
            res['confirmed'] = [c for c in res['confirmed'] if c]
            res['samples'] = [dict(obligation=self.name, outer=self.outer, position=self.pos, inner=self.inner, paths=[len(A), len(I), len(B)])]
        except Unsupported as ex:
            res['inconclusive'].append('%s: unsupported: %s' % (self.name, ex))
        except Exception:
            res['inconclusive'].append('%s: internal error: %s' % (self.name, traceback.format_exc()[-600:]))
        res['wall_s'] = round(time.time() - t0, 3)
        res['queries'] = dict(e.stats.queries); res['solver_s'] = round(e.stats.solver_s, 3); res['transitions'] = e.stats.transitions
        res['fns'] = sorted(e.stats.fns); res['summaries'] = sorted(e.stats.summaries)
        return res

    def pool_viol(self, e, runner, sx, leaves, what, profile, res):
        import itertools
        vars_ = [lf.var for lf in leaves if is_sym(lf.var) and not isinstance(lf.var, tuple)]
        if len(vars_) != len(leaves) or len(vars_) > 3: return None
        pools = []
        for v in vars_:
            if z3.is_fp(v): pools.append([fp_const(x) for x in INEXACT_POOL])
            elif z3.is_bv(v): pools.append([z3.BitVecVal(x, v.size()) for x in I64_POOL])
            elif z3.is_int(v): pools.append([z3.IntVal(x) for x in I64_POOL])
            else: return None
        n = 0
        for combo in itertools.product(*pools):
            n += 1
            if n > 4000: break
            s2 = z3.Solver()
            for v, x in zip(vars_, combo): s2.add(v == x)
            if s2.check() != z3.sat: continue
            c = self.viol_model(s2.model(), runner, sx, what, profile)
            res['replayed'] += 1
            if c: return c
        return None

    def viol(self, e, runner, sx, conds, what, profile):
        if e.check(*conds) != z3.sat: return None
        return self.viol_model(e.solver.model(), runner, sx, what, profile)

    def viol_model(self, model, runner, sx, what, profile):
        cz = Concretizer(model, runner)
        try:
            sA = sx(cz); sI = self._sxI(cz)
        except Unsupported:
            return None
        rA = runner.request('AST', self.ev, sA)[:2]
        rI = runner.request('AST', self.ev, sI)[:2]
        if rI[0] != 'OK':
            bad = rA[0] == 'OK'; rB = ('n/a', '')
        else:
            self._vtext[0] = rI[1]
            rB = runner.request('AST', self.ev, self._sxB(cz))[:2]
            bad = (rA[0] != rB[0]) or (rA[0] == 'OK' and rA[1] != rB[1])
        if not bad: return None
        return dict(sexpr=sA, native='%s but on the value %s of the subexpression: %s' % (' '.join(rA)[:60], rI[1][:30], ' '.join(rB)[:60]), what=what, profile=profile, obligation=self.name,
                    key='%s|compose|%s|%s' % (self.ev, self.outer, profile))


AGREE_POOL = [0, 1, -1, 2, 3, 5, 7, 10, 63, 64, (1 << 53) - 1, 1 << 53, (1 << 53) + 1, 9007199254740993, 3 * ((1 << 53) + 1), 1 << 62, I64_MAX, I64_MIN, I64_MIN + 1, 10 ** 18, 3037000500, -3037000500, 21]


class AgreeOb(Obligation):
    """eval_i64 Ok(v) on an integer node implies eval_number Integer(v) on the same operands (C15, first clause)"""

    def __init__(self, prop, kind, oc=True, assume_fn=None, n=2):
        Obligation.__init__(self, 'i64-vs-number/%s/%s' % (kind, 'dbg' if oc else 'rel')); self.prop = prop; self.kind = kind; self.oc = oc; self.assume_fn = assume_fn; self.n = n

    def pool_witness(self, runner, vs, li, ln, shape, assume, res):
        import itertools
        if getattr(self, '_pooled', False): return None
        self._pooled = True
        for combo in itertools.product(AGREE_POOL, repeat=len(vs)):
            if assume is not None and not z3.is_true(z3.simplify(z3.substitute(assume, *[(v, z3.IntVal(x)) for v, x in zip(vs, combo)]))): continue
            args = lambda pre: [('Num' if pre else 'Number') + ' ' + (pre + str(x)) for x in combo]
            def sx(pre, node):
                leaves = ['(%s %s%d)' % (node, pre, x) for x in combo]
                return '(%s %s)' % (self.kind, ' '.join(leaves))
            sa = sx('', 'Number'); sb = sx('I', 'Num')
            na = runner.request('AST', 'i64', sa)[:2]; nb = runner.request('AST', 'number', sb)[:2]
            res['replayed'] += 1
            if na[0] == 'OK' and nb != ('OK', 'I' + na[1]): return sa, sb, na, nb
        return None

    def run(self, ctx):
        prog = ctx.prog(self.oc)
        nk = prog.enum_key('number::Number')
        if nk: sem.set_number_variants(prog.enums[nk])
        res = dict(name=self.name, paths=0, obligations=0, discharged=0, confirmed=[], inconclusive=[], replayed=0, replay_mismatch=[], samples=[])
        e = eng_mod.Engine(prog, step_limit=3000, timeout_ms=30000, seed=ctx.seed); e.deadline = time.time() + 600
        profile = 'dev' if self.oc else 'release'; runner = ctx.runner(profile)
        t0 = time.time()
        try:
            vs = [z3.Int('x%d' % i) for i in range(self.n)]
            li = [Leaf('i64', 'x%d' % i) for i in range(self.n)]
            ln = [Leaf('number', 'x%d' % i, 'Integer', 'int') for i in range(self.n)]       # same z3 variables (same names)
            assume = self.assume_fn(vs) if self.assume_fn else None
            agg = self.kind in ('Min', 'Max')
            shape = lambda ls: (self.kind, list(ls)) if agg else (self.kind,) + tuple(ls)
            A, sxa = explore_tree(ctx, prog, e, 'i64', shape(li), assume)
            B, sxb = explore_tree(ctx, prog, e, 'number', shape(ln), assume)
            res['paths'] = len(A) + len(B)
            for c in [l.constraint for l in li] + ([assume] if assume is not None else []): e.assume(c)
            for pca, oa in A:
                if oa[0] != 'ok': continue
                for pcb, ob_ in B:
                    if e.check(pca, pcb) != z3.sat: continue
                    res['obligations'] += 1
                    good = False
                    if ob_[0] == 'ok':
                        w = ob_[1]
                        pred = sem.lift(lambda x: x[2] == 'Integer' and sem.same_int(x[3][0], oa[1]), lambda v: z3.And(sem.integral_in_range(v), sem.same_int(f64_to_int(v, 'i64'), oa[1])))(w)
                        if pred is True: good = True
                        elif pred is not False and e.check(pca, pcb, b_not(pred)) == z3.unsat: good = True
                        q = [b_not(pred)] if (pred is not True and pred is not False) else []
                    else: q = []
                    if good: res['discharged'] += 1; continue
                    rm = refined_model(e, runner, [pca, pcb] + q)
                    if rm is None and e.check(pca, pcb, *q) == z3.sat: rm = (e.solver.model(), Concretizer(e.solver.model(), runner))
                    if rm is None: res['inconclusive'].append('%s: no model' % self.name); continue
                    cz = rm[1]
                    sa, sb = sxa(cz), sxb(cz)
                    na = runner.request('AST', 'i64', sa)[:2]; nb = runner.request('AST', 'number', sb)[:2]
                    res['replayed'] += 1
                    if not (na[0] == 'OK' and nb != ('OK', 'I' + na[1])):
                        # the candidate did not reproduce (conversions are uninterpreted in this encoding): boundary operands on the compiled code
                        w = self.pool_witness(runner, vs, li, ln, shape, assume, res)
                        if w: sa, sb, na, nb = w
                    if na[0] == 'OK' and nb != ('OK', 'I' + na[1]):
                        res['confirmed'].append(dict(sexpr='%s | %s' % (sa, sb), native='eval_i64 %s, eval_number %s' % (' '.join(na), ' '.join(nb)), what='eval_number does not return Integer(v) where eval_i64 returns Ok(v)', profile=profile,
                                                     obligation=self.name, key='agree|i64-number|%s|%s' % (self.kind, profile)))
                    else: res['inconclusive'].append('%s: disagreement did not reproduce natively (%s / %s)' % (self.name, na, nb))
            res['samples'] = [dict(obligation=self.name, kind=self.kind, paths_i64=len(A), paths_number=len(B))]
        except Unsupported as ex:
            res['inconclusive'].append('%s: unsupported: %s' % (self.name, ex))
        except Exception:
            res['inconclusive'].append('%s: internal error: %s' % (self.name, traceback.format_exc()[-600:]))
        res['wall_s'] = round(time.time() - t0, 3)
        res['queries'] = dict(e.stats.queries); res['solver_s'] = round(e.stats.solver_s, 3); res['transitions'] = e.stats.transitions
        res['fns'] = sorted(e.stats.fns); res['summaries'] = sorted(e.stats.summaries)
        return res
