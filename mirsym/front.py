"""Front end: scratch copy of /repo's working tree, MIR dumps, enum / impl tables, native runner build.

Every run copies /repo/{Cargo.toml,Cargo.lock,src} to a fresh scratch directory outside /repo and /verif,
dumps MIR for the requested configuration(s) with the nightly toolchain and parses it.  Nothing about the
crate's own code is cached across runs; only compiled dependencies live in /verif/.cache.
"""
import hashlib, os, re, shutil, subprocess, tempfile, time, atexit, json, fcntl

from . import mirparse

REPO = os.environ.get('VERIF_REPO', '/repo')
VERIF = os.path.dirname(os.path.dirname(os.path.abspath(__file__)))
CACHE = os.path.join(VERIF, '.cache')
ALL_FEATURES = ['eval_complex', 'eval_decimal', 'eval_f64', 'eval_i64', 'eval_number']
ENV = dict(os.environ, CARGO_NET_OFFLINE='true', CARGO_TERM_COLOR='never')


def tree_hash(root):
    h = hashlib.sha256()
    for rel in ['Cargo.toml', 'Cargo.lock']:
        p = os.path.join(root, rel)
        if os.path.exists(p):
            h.update(rel.encode()); h.update(open(p, 'rb').read())
    for d, dirs, files in sorted(os.walk(os.path.join(root, 'src'))):
        dirs.sort()
        for f in sorted(files):
            p = os.path.join(d, f)
            h.update(os.path.relpath(p, root).encode()); h.update(open(p, 'rb').read())
    return h.hexdigest()


class Build:
    """One scratch copy of the repository and everything derived from it."""

    def __init__(self, repo=REPO):
        self.repo = repo
        os.makedirs(CACHE, exist_ok=True)
        base = os.environ.get('VERIF_SCRATCH', '/tmp')
        self.scratch = tempfile.mkdtemp(prefix='mirsym-', dir=base)
        atexit.register(self.cleanup)
        for rel in ['Cargo.toml', 'Cargo.lock']:
            src = os.path.join(repo, rel)
            if not os.path.exists(src) and rel == 'Cargo.lock': src = os.path.join('/repo', rel)      # untracked in git worktrees
            if os.path.exists(src): shutil.copy(src, os.path.join(self.scratch, rel))
        shutil.copytree(os.path.join(repo, 'src'), os.path.join(self.scratch, 'src'))
        self.hash = tree_hash(self.scratch)
        self.timings = {}
        self._programs = {}

    def cleanup(self):
        shutil.rmtree(self.scratch, ignore_errors=True)

    # ---- MIR ------------------------------------------------------------
    def mir_text(self, overflow_checks=True, features=None):
        feats = ALL_FEATURES if features is None else list(features)
        tag = ('on' if overflow_checks else 'off') + '-' + '+'.join(sorted(feats))
        tdir = os.path.join(CACHE, 'target-mir')
        os.makedirs(tdir, exist_ok=True)
        lib = os.path.join(self.scratch, 'src', 'lib.rs')
        cmd = ['cargo', '+nightly', 'rustc', '--offline', '--lib', '--no-default-features', '--features', ','.join(feats), '--',
               '-Zunpretty=mir', '-C', 'debug-assertions=off', '-C', 'overflow-checks=' + ('on' if overflow_checks else 'off')]
        t0 = time.time()
        # one cargo invocation at a time per target dir (cargo locks too, but the touch must be inside the lock)
        with open(os.path.join(tdir, '.mirsym.lock'), 'w') as lk:
            fcntl.flock(lk, fcntl.LOCK_EX)
            os.utime(lib, None)
            r = subprocess.run(cmd, cwd=self.scratch, env=dict(ENV, CARGO_TARGET_DIR=tdir), capture_output=True, text=True)
        self.timings['mir-' + tag] = round(time.time() - t0, 2)
        if r.returncode != 0 or 'fn ' not in r.stdout:
            raise BuildError('MIR dump failed (%s):\n%s' % (tag, r.stderr[-4000:]))
        return r.stdout

    def program(self, overflow_checks=True, features=None):
        key = (overflow_checks, tuple(sorted(features)) if features else None)
        if key not in self._programs:
            text = self.mir_text(overflow_checks, features)
            t0 = time.time()
            fns, promoted, allocs = mirparse.parse_mir(text)
            consts, statics = dict(mirparse.consts), dict(mirparse.statics)
            prog = Program(fns, promoted, allocs, self.source_tables(features), overflow_checks, hashlib.sha256(text.encode()).hexdigest())
            prog.consts = consts; prog.statics = statics
            self.timings['parse-' + str(key)] = round(time.time() - t0, 2)
            self._programs[key] = prog
        return self._programs[key]

    # ---- source tables: enums (variant order) and impl headers ------------
    def source_tables(self, features=None):
        feats = set(ALL_FEATURES if features is None else features)
        enums = dict(BUILTIN_ENUMS)
        enum_fields = dict(BUILTIN_FIELDS)
        impls = []      # (module, file, line, kind, trait, type)
        lines_by_file = {}
        src = os.path.join(self.scratch, 'src')
        for d, _, files in os.walk(src):
            for f in files:
                if not f.endswith('.rs'): continue
                p = os.path.join(d, f)
                rel = os.path.relpath(p, self.scratch)
                mfeat = re.match(r'src/(eval_\w+)/', rel)
                if mfeat and mfeat.group(1) not in feats: continue          # module not compiled in this feature set
                txt = open(p).read()
                # drop the unit-test module (never part of the library build)
                cut = re.search(r'\n#\[cfg\(test\)\]\s*\nmod tests', txt)
                body = txt[:cut.start()] if cut else txt
                lines = body.split('\n')
                lines_by_file[rel] = lines
                modpath = module_of(rel)
                for m in re.finditer(r'pub enum (\w+)\s*\{(.*?)\n\}', body, re.S):
                    vs = []; fl = {}
                    pending_cfg = None
                    for line in m.group(2).split('\n'):
                        s = line.strip()
                        if not s or s.startswith('//'): continue
                        mc = re.match(r'#\[cfg\((.*)\)\]$', s)
                        if mc: pending_cfg = mc.group(1); continue
                        if s.startswith('#'): continue
                        mv = re.match(r'(\w+)\s*(\((.*)\))?\s*,?$', s)
                        if not mv: continue
                        keep = True
                        if pending_cfg is not None:
                            keep = eval_cfg(pending_cfg, feats); pending_cfg = None
                        if keep:
                            vs.append(mv.group(1))
                            fl[mv.group(1)] = [t.strip() for t in mirparse.split_top(mv.group(3))] if mv.group(3) else []
                    q = modpath + '::' + m.group(1)
                    enums[q] = vs; enum_fields[q] = fl
                for i, line in enumerate(lines):
                    mi = re.match(r'\s*impl(<[^>]*>)?\s+(.*?)\s*\{', line)
                    if mi:
                        hdr = mi.group(2)
                        mt = re.match(r'(.*?)\s+for\s+(.*)$', hdr)
                        if mt: impls.append((modpath, rel, i + 1, 'trait', strip_gen(mt.group(1)), strip_gen(mt.group(2))))
                        else: impls.append((modpath, rel, i + 1, 'inherent', None, strip_gen(hdr)))
                    md = re.match(r'\s*#\[derive\((.*)\)\]', line)
                    if md:
                        # the item the derive applies to
                        ty = None
                        for j in range(i + 1, min(i + 6, len(lines))):
                            mt = re.match(r'\s*pub\s+(?:enum|struct)\s+(\w+)', lines[j])
                            if mt: ty = mt.group(1); break
                        for dm in re.finditer(r'\w+', md.group(1)):
                            impls.append((modpath, rel, i + 1, 'derive', dm.group(0), ty, dm.start() + line.index('(') + 2))
        return {'enums': enums, 'enum_fields': enum_fields, 'impls': impls, 'lines': lines_by_file}

    # ---- native runner ----------------------------------------------------
    def runner(self, profile='dev'):
        """Build (or fetch from the content-addressed cache) the native replay binary for this tree."""
        from . import native
        return native.build_runner(self, profile)


class BuildError(Exception):
    pass


def strip_gen(s):
    s = re.sub(r"<'\w+>", '', s)
    prev = None
    while prev != s:
        prev = s; s = re.sub(r'<[^<>]*>', '', s)
    return s.strip().split('::')[-1] if False else s.strip()


def module_of(rel):
    # src/eval_f64/token.rs -> eval_f64::token ; src/utils/mod.rs -> utils ; src/lib.rs -> ''
    parts = rel[:-3].split(os.sep)[1:]
    if parts[-1] in ('mod', 'lib'): parts = parts[:-1]
    return '::'.join(parts)


def eval_cfg(expr, feats):
    expr = expr.strip()
    m = re.match(r'feature\s*=\s*"(\w+)"$', expr)
    if m: return m.group(1) in feats
    m = re.match(r'(any|all|not)\((.*)\)$', expr, re.S)
    if m:
        parts = [eval_cfg(p, feats) for p in mirparse.split_top(m.group(2))]
        return {'any': any, 'all': all, 'not': lambda l: not l[0]}[m.group(1)](parts)
    if expr == 'test': return False
    raise ValueError('cfg? ' + expr)


BUILTIN_ENUMS = {
    'Option': ['None', 'Some'], 'Result': ['Ok', 'Err'], 'ControlFlow': ['Continue', 'Break'],
    'Ordering': ['Less', 'Equal', 'Greater'],
}
BUILTIN_FIELDS = {
    'Option': {'None': [], 'Some': ['T']}, 'Result': {'Ok': ['T'], 'Err': ['E']},
    'ControlFlow': {'Continue': ['C'], 'Break': ['B']}, 'Ordering': {'Less': [], 'Equal': [], 'Greater': []},
}
ORDERING_DISCR = {'Less': -1, 'Equal': 0, 'Greater': 1}


class Program:
    """Parsed MIR of one configuration plus the lookup tables the interpreter needs."""

    def __init__(self, fns, promoted, allocs, tables, overflow_checks, digest):
        self.fns = fns; self.promoted = promoted; self.allocs = allocs
        self.enums = tables['enums']; self.enum_fields = tables['enum_fields']; self.impls = tables['impls']
        self.lines = tables['lines']
        self.overflow_checks = overflow_checks; self.digest = digest
        self._enum_cache = {}
        self._callee_cache = {}
        self.consts = {}; self.statics = {}
        self.closures = {}
        self.impl_fns = {}     # (file, line) -> {method: defname}
        for name in fns:
            m = re.match(r'^(.*?)::<impl at ([^:>]+):(\d+):(\d+): (\d+):(\d+)>::(.*)$', name)
            if m:
                self.impl_fns.setdefault((m.group(2), int(m.group(3)), int(m.group(4))), {})[m.group(7)] = name
            if '{closure#' in name:
                sig = fns[name][0].sig
                ms = re.search(r'\{closure@([^}]*)\}', sig)
                if ms: self.closures[ms.group(1)] = name

    # -- enums --
    def enum_key(self, path):
        """resolve a (possibly trimmed) type path to the key of the enum table, or None"""
        if path in self._enum_cache: return self._enum_cache[path]
        r = None
        if path in self.enums: r = path
        else:
            last = path.split('::')[-1]
            if last in BUILTIN_ENUMS and path.split('::')[0] in ('std', 'core', last): r = last
            else:
                c = [k for k in self.enums if k == path or k.endswith('::' + path)]
                if len(c) == 1: r = c[0]
        self._enum_cache[path] = r
        return r

    # -- callee resolution --
    def resolve(self, callee):
        """map a MIR callee string (lifetimes/generics included) to the name of a crate function body, or None"""
        if callee in self._callee_cache: return self._callee_cache[callee]
        r = self._resolve(callee)
        self._callee_cache[callee] = r
        return r

    def _resolve(self, callee):
        c = mirparse_strip(callee)
        if c in self.fns: return c
        # <Type as Trait>::method
        m = re.match(r'^<(.*) as (.*?)>::(\w+)$', c)
        if m:
            ty, tr, meth = m.group(1).lstrip('&').strip(), m.group(2), m.group(3)
            tyl = ty.split('::')[-1]; trl = re.sub(r'<.*$', '', tr).split('::')[-1]
            trfull = tr.split('::')[-1] if '<' not in tr else re.sub(r'^.*::(?=\w+<)', '', tr)
            cands = []
            for imp in self.impls:
                if imp[3] == 'trait' and imp[5].split('::')[-1] == tyl:
                    it = imp[4]
                    if it.split('::')[-1] == trl or it == trfull or re.sub(r'<.*$', '', it).split('::')[-1] == trl:
                        cands.append(imp)
                elif imp[3] == 'derive' and imp[5] == tyl and imp[4] == trl:
                    cands.append(imp)
            # narrow by module when the type path carries one
            if len(cands) > 1 and '::' in ty:
                modhint = '::'.join(ty.split('::')[:-1])
                n = [i for i in cands if i[0].endswith(modhint) or modhint.endswith(i[0]) or i[0] == modhint]
                if n: cands = n
            # narrow trait impls by generic argument (From<f64> vs From<i64>)
            if len(cands) > 1 and '<' in tr:
                arg = tr[tr.index('<'):]
                n = [i for i in cands if i[3] == 'trait' and self.lines[i[1]][i[2] - 1].replace(' ', '').find(arg.replace(' ', '').replace('std::boxed::', '').replace('std::error::', '')) >= 0]
                if n: cands = n
            out = []
            for imp in cands:
                for (f, line, col), meths in self.impl_fns.items():
                    if f == imp[1] and line == imp[2] and meth in meths:
                        if imp[3] == 'derive' and col != imp[6]: continue
                        out.append(meths[meth])
            if len(out) == 1: return out[0]
            return None
        # mod::Type::method (inherent)
        m = re.match(r'^(.*)::(\w+)::(\w+)$', c)
        if m:
            mod, ty, meth = m.groups()
            out = []
            for imp in self.impls:
                if imp[3] == 'inherent' and imp[5].split('::')[-1] == ty and (imp[0] == mod or imp[0].endswith('::' + mod) or mod.endswith(imp[0])):
                    for (f, line, col), meths in self.impl_fns.items():
                        if f == imp[1] and line == imp[2] and meth in meths: out.append(meths[meth])
            if len(out) == 1: return out[0]
        m = re.match(r'^(\w+)::(\w+)$', c)
        if m:
            ty, meth = m.groups(); out = []
            for imp in self.impls:
                if imp[3] == 'inherent' and imp[5].split('::')[-1] == ty:
                    for (f, line, col), meths in self.impl_fns.items():
                        if f == imp[1] and line == imp[2] and meth in meths: out.append(meths[meth])
            if len(out) == 1: return out[0]
        cands = [n for n in self.fns if n.endswith('::' + c) or c.endswith('::' + n)]
        if len(cands) == 1: return cands[0]
        return None

    def is_derived(self, defname):
        m = re.match(r'^(.*?)::<impl at ([^:>]+):(\d+):(\d+): (\d+):(\d+)>::(.*)$', defname)
        if not m: return False
        line = self.lines.get(m.group(2), [''] * (int(m.group(3)) + 1))[int(m.group(3)) - 1]
        return '#[derive(' in line

    def entry(self, ev, what):
        """name of a well-known function of evaluator `ev`, robust against path trimming in reduced-feature builds:
        what in public | eval | parser_new | parser_parse | tok_new | tok_next"""
        if what == 'public':
            c = [n for n in self.fns if n == 'eval_' + ev or n.endswith('::eval_' + ev)]
        elif what == 'eval':
            c = [n for n in self.fns if n in ('eval_%s::ast::eval' % ev, 'ast::eval', 'eval')]
        else:
            file_, meth = {'parser_new': ('parser', 'new'), 'parser_parse': ('parser', 'parse'), 'tok_new': ('tokenizer', 'new'), 'tok_next': ('tokenizer', 'next')}[what]
            c = [n for n in self.fns if re.search(r'<impl at src/eval_%s/%s\.rs:[^>]*>::%s$' % (ev, file_, meth), n)]
        if len(c) != 1: raise KeyError('entry %s of eval_%s matches %d functions: %s' % (what, ev, len(c), c[:4]))
        return c[0]

    def find_fn(self, pattern):
        """first crate function whose name matches the regex (harness entry points)"""
        c = [n for n in self.fns if re.search(pattern, n)]
        if len(c) != 1: raise KeyError('entry %r matches %d functions: %s' % (pattern, len(c), c[:5]))
        return c[0]


GEN = re.compile(r"::<(?!impl )[^<>]*(?:<[^<>]*(?:<[^<>]*(?:<[^<>]*>[^<>]*)*>[^<>]*)*>[^<>]*)*>")


def mirparse_strip(s):
    """remove lifetimes and turbofish generics from a callee path"""
    s = s.replace("::<'_>", '').replace("<'_>", '').replace("'_ ", '').replace("&'_ ", '&')
    s = re.sub(r"<'\w+>", '', s)
    prev = None
    while prev != s:
        prev = s; s = GEN.sub('', s)
    return s
