"""Value model shared by the interpreter, the summaries and the reference semantics."""
import math, struct
import z3

F64 = z3.Float64()
RNE = z3.RNE()
RTZ = z3.RTZ()
RTN = z3.RTN()
RTP = z3.RTP()
RNA = z3.RNA()

I64_MIN = -(1 << 63)
I64_MAX = (1 << 63) - 1

INT_TYPES = {
    'i8': (8, True), 'i16': (16, True), 'i32': (32, True), 'i64': (64, True), 'i128': (128, True), 'isize': (64, True),
    'u8': (8, False), 'u16': (16, False), 'u32': (32, False), 'u64': (64, False), 'u128': (128, False), 'usize': (64, False),
    'char': (32, False),
}

UNIT = ('tuple', ())


class Panic(Exception):
    """a path that ends in a panic of the real code (message says where and why)"""
    def __init__(self, msg, kind='panic'):
        Exception.__init__(self, msg); self.kind = kind


class Unsupported(Exception):
    """the interpreter met something it has no semantics for: the run is inconclusive, never guessed"""


def adt(ty, variant, fields=()):
    return ('adt', ty, variant, tuple(fields))


def some(v): return adt('Option', 'Some', [v])
NONE = adt('Option', 'None')
def ok(v): return adt('Result', 'Ok', [v])
def err(v): return adt('Result', 'Err', [v])


def is_sym(v):
    return isinstance(v, z3.ExprRef)


def is_conc_int(v):
    return isinstance(v, int) and not isinstance(v, bool)


# ---- booleans -------------------------------------------------------------
def b_not(a):
    if a is True: return False
    if a is False: return True
    return z3.Not(a)


def b_and(*cs):
    out = []
    for c in cs:
        if c is False: return False
        if c is True: continue
        out.append(c)
    if not out: return True
    return out[0] if len(out) == 1 else z3.And(out)


def b_or(*cs):
    out = []
    for c in cs:
        if c is True: return True
        if c is False: continue
        out.append(c)
    if not out: return False
    return out[0] if len(out) == 1 else z3.Or(out)


def as_bool(v):
    if isinstance(v, bool): return v
    if is_conc_int(v): return v != 0
    if z3.is_bool(v): return v
    return v != 0


def ite(c, a, b):
    """if-then-else over scalar values (ints, bools, floats)"""
    if c is True: return a
    if c is False: return b
    if not is_sym(a) and not is_sym(b) and a == b and type(a) == type(b): return a
    if isinstance(a, bool) or isinstance(b, bool) or (is_sym(a) and z3.is_bool(a)) or (is_sym(b) and z3.is_bool(b)):
        a = z3.BoolVal(a) if isinstance(a, bool) else a
        b = z3.BoolVal(b) if isinstance(b, bool) else b
        return z3.If(c, a, b)
    if is_conc_int(a): a = z3.IntVal(a)
    if is_conc_int(b): b = z3.IntVal(b)
    return z3.If(c, a, b)


# ---- integers ---------------------------------------------------------------
# A machine integer is a Python int (concrete), a z3 Int term with the type's range as an invariant, or a
# z3 bit-vector of the type's width.  Which of the two symbolic forms is used is decided by whoever creates
# the symbolic input (Int: exact arithmetic, good for * and pow; BV: good next to floating point).
def int_range(ty):
    bits, signed = INT_TYPES[ty]
    return (-(1 << (bits - 1)), (1 << (bits - 1)) - 1) if signed else (0, (1 << bits) - 1)


def is_bv(x):
    return is_sym(x) and z3.is_bv(x)


def in_range(x, ty):
    lo, hi = int_range(ty)
    if is_conc_int(x): return lo <= x <= hi
    if is_bv(x): return True
    return z3.And(x >= lo, x <= hi)


def wrap(x, ty):
    lo, hi = int_range(ty)
    m = hi - lo + 1
    if is_conc_int(x): return ((x - lo) % m) + lo
    if is_bv(x): return x
    return z3.If(z3.And(x >= lo, x <= hi), x, ((x - lo) % m) + lo)


def _bvpair(a, b, ty):
    bits = INT_TYPES[ty][0]
    if is_conc_int(a): a = z3.BitVecVal(a, bits)
    if is_conc_int(b): b = z3.BitVecVal(b, bits)
    if not is_bv(a): a = z3.Int2BV(a, bits)
    if not is_bv(b): b = z3.Int2BV(b, bits)
    return a, b


def _conc(r, signed=True):
    r2 = z3.simplify(r)
    if z3.is_bv_value(r2): return r2.as_signed_long() if signed else r2.as_long()
    if z3.is_int_value(r2): return r2.as_long()
    if z3.is_true(r2): return True
    if z3.is_false(r2): return False
    return r


def i_arith(op, a, b, ty):
    """(wrapped result, overflow flag) of a + - * on type ty"""
    signed = INT_TYPES[ty][1]
    if is_bv(a) or is_bv(b):
        a, b = _bvpair(a, b, ty)
        if op == 'Add': return a + b, b_not(b_and(z3.BVAddNoOverflow(a, b, signed), z3.BVAddNoUnderflow(a, b) if signed else True))
        if op == 'Sub': return a - b, b_not(b_and(z3.BVSubNoOverflow(a, b) if signed else True, z3.BVSubNoUnderflow(a, b, signed)))
        if op == 'Mul': return a * b, b_not(b_and(z3.BVMulNoOverflow(a, b, signed), z3.BVMulNoUnderflow(a, b) if signed else True))
    x = {'Add': lambda: a + b, 'Sub': lambda: a - b, 'Mul': lambda: a * b}[op]()
    if is_conc_int(x): return wrap(x, ty), not in_range(x, ty)
    return wrap(x, ty), z3.Not(in_range(x, ty))


def i_exact(op, a, b):
    """the mathematical result as a z3 Int / Python int (for reference semantics)"""
    a = to_int(a); b = to_int(b)
    return {'Add': lambda: a + b, 'Sub': lambda: a - b, 'Mul': lambda: a * b}[op]()


def to_int(x, signed=True):
    if is_bv(x): return z3.BV2Int(x, is_signed=signed)
    return x


def i_cmp(op, a, b, ty):
    signed = INT_TYPES.get(ty, (64, True))[1]
    if is_bv(a) or is_bv(b):
        a, b = _bvpair(a, b, ty)
        if op == 'Eq': return a == b
        if op == 'Ne': return a != b
        if signed: return {'Lt': a < b, 'Le': a <= b, 'Gt': a > b, 'Ge': a >= b}[op]
        return {'Lt': z3.ULT(a, b), 'Le': z3.ULE(a, b), 'Gt': z3.UGT(a, b), 'Ge': z3.UGE(a, b)}[op]
    return {'Eq': lambda: a == b, 'Ne': lambda: a != b, 'Lt': lambda: a < b, 'Le': lambda: a <= b, 'Gt': lambda: a > b, 'Ge': lambda: a >= b}[op]()


def tdiv(a, b):
    """truncating division (Rust `/` on integers); b != 0"""
    if is_conc_int(a) and is_conc_int(b):
        q = abs(a) // abs(b)
        return q if (a >= 0) == (b > 0) else -q
    a_ = z3.IntVal(a) if is_conc_int(a) else a
    b_ = z3.IntVal(b) if is_conc_int(b) else b
    absa = z3.If(a_ >= 0, a_, -a_); absb = z3.If(b_ >= 0, b_, -b_)
    q = absa / absb
    return z3.If((a_ >= 0) == (b_ > 0), q, -q)


def trem(a, b):
    """remainder with the sign of the dividend (Rust `%` on integers); b != 0"""
    if is_conc_int(a) and is_conc_int(b):
        r = abs(a) % abs(b)
        return r if a >= 0 else -r
    a_ = z3.IntVal(a) if is_conc_int(a) else a
    b_ = z3.IntVal(b) if is_conc_int(b) else b
    absa = z3.If(a_ >= 0, a_, -a_); absb = z3.If(b_ >= 0, b_, -b_)
    r = absa % absb
    return z3.If(a_ >= 0, r, -r)


def i_div(a, b, ty):
    signed = INT_TYPES[ty][1]
    if is_bv(a) or is_bv(b):
        a, b = _bvpair(a, b, ty)
        return (a / b) if signed else z3.UDiv(a, b)      # bvsdiv truncates toward zero
    return tdiv(a, b)


def i_rem(a, b, ty):
    signed = INT_TYPES[ty][1]
    if is_bv(a) or is_bv(b):
        a, b = _bvpair(a, b, ty)
        return z3.SRem(a, b) if signed else z3.URem(a, b)
    return trem(a, b)


def i_neg(a, ty):
    if is_bv(a): return -a
    return wrap(-a, ty)


def i_bit(op, a, b, ty):
    bits, signed = INT_TYPES[ty]
    if is_conc_int(a) and is_conc_int(b):
        r = {'BitAnd': a & b, 'BitOr': a | b, 'BitXor': a ^ b}[op]
        return wrap(r, ty)
    was_bv = is_bv(a) or is_bv(b)
    x, y = _bvpair(a, b, ty)
    r = {'BitAnd': x & y, 'BitOr': x | y, 'BitXor': x ^ y}[op]
    return r if was_bv else z3.BV2Int(r, is_signed=signed)


def i_shift(op, a, n, ty):
    """a << n or a >> n with 0 <= n < bits already established (or masked).  Int-mode operands stay in the Int
    theory: a << k is wrap(a * 2^k), a >> k is floor(a / 2^k) for signed and unsigned types alike"""
    bits, signed = INT_TYPES[ty]
    if is_conc_int(a) and is_conc_int(n):
        return wrap(a << n, ty) if op == 'Shl' else (a >> n)
    if is_bv(a) or is_bv(n):
        nn = n
        if is_bv(nn) and nn.size() != bits:
            nn = z3.ZeroExt(bits - nn.size(), nn) if nn.size() < bits else z3.Extract(bits - 1, 0, nn)
        x, y = _bvpair(a, nn, ty)
        if op == 'Shl': return x << y
        return (x >> y) if signed else z3.LShR(x, y)
    def one(k):
        if op == 'Shl': return wrap(a * (1 << k), ty)
        return a / (1 << k) if is_sym(a) else a >> k
    if is_conc_int(n): return one(n)
    r = one(bits - 1)
    for k in range(bits - 2, -1, -1): r = ite(n == k, one(k), r)
    return r


def i_cast(x, src, dst):
    """integer-to-integer `as` cast"""
    if is_conc_int(x): return wrap(x, dst)
    sb, ss = INT_TYPES[src]; db, ds = INT_TYPES[dst]
    if is_bv(x):
        if db == sb: return x
        if db < sb: return z3.Extract(db - 1, 0, x)
        return z3.SignExt(db - sb, x) if ss else z3.ZeroExt(db - sb, x)
    lo, hi = int_range(src); lo2, hi2 = int_range(dst)
    if lo2 <= lo and hi <= hi2: return x
    return wrap(x, dst)


def to_bv(x, bits=64):
    if is_conc_int(x): return z3.BitVecVal(x, bits)
    if is_bv(x): return x
    if z3.is_app(x) and x.decl().kind() == z3.Z3_OP_BV2INT and x.arg(0).size() == bits: return x.arg(0)
    return z3.Int2BV(x, bits)


def from_bv(bv, signed=True):
    r = z3.simplify(bv)
    if z3.is_bv_value(r):
        return r.as_signed_long() if signed else r.as_long()
    return z3.BV2Int(bv, is_signed=signed)


# ---- floats -----------------------------------------------------------------
def fp_const(x):
    if isinstance(x, str): x = float(x)
    if isinstance(x, int): x = float(x)
    if math.isnan(x): return z3.fpNaN(F64)
    if math.isinf(x): return z3.fpPlusInfinity(F64) if x > 0 else z3.fpMinusInfinity(F64)
    bits = struct.unpack('<Q', struct.pack('<d', x))[0]
    return z3.fpBVToFP(z3.BitVecVal(bits, 64), F64) if False else _fp_from_bits(bits)


def _fp_from_bits(bits):
    sign = bits >> 63; exp = (bits >> 52) & 0x7ff; sig = bits & ((1 << 52) - 1)
    return z3.fpFP(z3.BitVecVal(sign, 1), z3.BitVecVal(exp, 11), z3.BitVecVal(sig, 52))


def fp_from_bits(bits): return _fp_from_bits(bits)


def is_fp(v):
    return is_sym(v) and z3.is_fp(v)


def fp_is_conc(v):
    return z3.is_fp_value(v) or (z3.is_app(v) and v.decl().kind() == z3.Z3_OP_FPA_FP and all(z3.is_bv_value(c) for c in v.children()))


def fp_bits(v):
    """IEEE bits of a concrete FP value (NaN canonicalised)"""
    r = z3.simplify(z3.fpToIEEEBV(v))
    if not z3.is_bv_value(r):
        # NaN has no unique IEEE encoding in z3
        if z3.is_true(z3.simplify(z3.fpIsNaN(v))): return 0x7ff8000000000000
        raise ValueError('not concrete: %s' % v)
    return r.as_long()


def fp_to_py(v):
    if z3.is_true(z3.simplify(z3.fpIsNaN(v))): return float('nan')
    return struct.unpack('<d', struct.pack('<Q', fp_bits(v)))[0]


def fsimp(t, *args):
    if all(not is_sym(a) or fp_is_conc(a) or z3.is_int_value(a) or z3.is_bv_value(a) for a in args):
        return z3.simplify(t)
    return t


def fp_same(a, b):
    """bit-for-bit equality with all NaNs identified"""
    return z3.Or(z3.And(z3.fpIsNaN(a), z3.fpIsNaN(b)), z3.And(z3.Not(z3.fpIsNaN(a)), z3.Not(z3.fpIsNaN(b)), z3.fpToIEEEBV(a) == z3.fpToIEEEBV(b))) if False else _fp_same(a, b)


def _fp_same(a, b):
    # a == b as SMT terms is exactly "same bits or both NaN" in z3's FP theory (structural equality on FP sort)
    return a == b


_UF = {}


def uf(name, *sorts):
    k = (name,) + tuple(str(s) for s in sorts)
    if k not in _UF: _UF[k] = z3.Function(name, *sorts)
    return _UF[k]


def uf_f64(name, *args):
    """application of an uninterpreted libm function on doubles"""
    return uf('uf_' + name, *([F64] * (len(args) + 1)))(*args)


def int_to_f64(x, ty='i64'):
    """`x as f64`: round to nearest even"""
    bits, signed = INT_TYPES[ty]
    if is_conc_int(x): return z3.simplify(z3.fpToFP(RNE, z3.RealVal(x), F64))
    if is_bv(x): return z3.fpSignedToFP(RNE, x, F64) if signed else z3.fpUnsignedToFP(RNE, x, F64)
    # Int-theory integers: the conversion is kept abstract (uninterpreted i2f : Int -> Float64).  This over-approximates
    # (more paths are feasible), which is sound for proofs; every counterexample is recomputed exactly at replay.
    return uf('uf_i2f', z3.IntSort(), F64)(x)


def f64_to_int(v, ty, want_bv=None):
    """`v as <int type>`: saturating, NaN -> 0.  Result is a bit-vector when the float is symbolic (cheap next to FP)."""
    lo, hi = int_range(ty)
    bits, signed = INT_TYPES[ty]
    lo_f = z3.simplify(z3.fpToFP(RNE, z3.RealVal(lo), F64)); hi_f = z3.simplify(z3.fpToFP(RNE, z3.RealVal(hi), F64))
    t = z3.fpRoundToIntegral(RTZ, v)
    conv = z3.fpToSBV(RTZ, t, z3.BitVecSort(bits)) if signed else z3.fpToUBV(RTZ, t, z3.BitVecSort(bits))
    r = z3.If(z3.fpIsNaN(v), z3.BitVecVal(0, bits), z3.If(z3.fpLEQ(v, lo_f), z3.BitVecVal(lo, bits), z3.If(z3.fpGEQ(v, hi_f), z3.BitVecVal(hi, bits), conv)))
    if fp_is_conc(v):
        r = z3.simplify(r)
        if z3.is_bv_value(r): return r.as_signed_long() if signed else r.as_long()
    return r
