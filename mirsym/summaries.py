"""Summaries: the documented contract of every library function the crate calls, on the value model.

This file is the trusted base of the interpreter.  A summary returns a list of outcomes
[(condition, value | Panic | callable(state) -> value | ('tailcall', fn, args, post))]; the engine forks over the
feasible ones.  Anything without a summary makes the run inconclusive (Unsupported), never a guess.
"""
import re
import z3

from .values import *
from .front import mirparse_strip

T = True

WHITE_SPACE = [0x9, 0xA, 0xB, 0xC, 0xD, 0x20, 0x85, 0xA0, 0x1680, 0x2000, 0x2001, 0x2002, 0x2003, 0x2004, 0x2005, 0x2006,
               0x2007, 0x2008, 0x2009, 0x200A, 0x2028, 0x2029, 0x202F, 0x205F, 0x3000]

PI = fp_const(3.141592653589793)
E_ = fp_const(2.718281828459045)


def named_const(e, c):
    c0 = c
    c = c.strip()
    m = re.match(r'^(.*) as f64 \(IntToFloat$', c)
    tbl = {
        'std::f64::consts::PI': PI, 'std::f64::consts::E': E_, 'f64::consts::PI': PI, 'f64::consts::E': E_,
        'f64::EPSILON': fp_const(2.220446049250313e-16), 'core::f64::<impl f64>::EPSILON': fp_const(2.220446049250313e-16), 'std::f64::EPSILON': fp_const(2.220446049250313e-16),
        'f64::MAX': fp_const(1.7976931348623157e308), 'core::f64::<impl f64>::MAX': fp_const(1.7976931348623157e308), 'f64::MIN': fp_const(-1.7976931348623157e308),
        'core::f64::<impl f64>::MIN': fp_const(-1.7976931348623157e308), 'f64::MIN_POSITIVE': fp_const(2.2250738585072014e-308), 'core::f64::<impl f64>::MIN_POSITIVE': fp_const(2.2250738585072014e-308),
        'f64::INFINITY': fp_const(float('inf')), 'f64::NEG_INFINITY': fp_const(float('-inf')), 'f64::NAN': fp_const(float('nan')),
        'core::f64::<impl f64>::INFINITY': fp_const(float('inf')), 'core::f64::<impl f64>::NEG_INFINITY': fp_const(float('-inf')),
        'core::f64::<impl f64>::NAN': fp_const(float('nan')),
        'std::f64::INFINITY': fp_const(float('inf')), 'std::f64::NEG_INFINITY': fp_const(float('-inf')), 'std::f64::NAN': fp_const(float('nan')),
        'i64::MIN': I64_MIN, 'i64::MAX': I64_MAX, 'core::num::<impl i64>::MIN': I64_MIN, 'core::num::<impl i64>::MAX': I64_MAX,
        'u32::MAX': (1 << 32) - 1, 'core::num::<impl u32>::MAX': (1 << 32) - 1, 'i32::MIN': -(1 << 31), 'core::num::<impl i32>::MIN': -(1 << 31),
        'i32::MAX': (1 << 31) - 1, 'core::num::<impl i32>::MAX': (1 << 31) - 1,
        'i128::MIN': -(1 << 127), 'i128::MAX': (1 << 127) - 1, 'core::num::<impl i128>::MIN': -(1 << 127), 'core::num::<impl i128>::MAX': (1 << 127) - 1,
        'i64::BITS': 64, 'core::num::<impl i64>::BITS': 64, 'u64::BITS': 64, 'core::num::<impl u64>::BITS': 64, 'i32::BITS': 32, 'core::num::<impl i32>::BITS': 32,
        'u32::BITS': 32, 'core::num::<impl u32>::BITS': 32, 'usize::BITS': 64, 'core::num::<impl usize>::BITS': 64,
        'u64::MAX': (1 << 64) - 1, 'core::num::<impl u64>::MAX': (1 << 64) - 1, 'i64::MAX as u64': (1 << 63) - 1,
        'usize::MAX': (1 << 64) - 1, 'core::num::<impl usize>::MAX': (1 << 64) - 1,
        'Option::<Infallible>::None': NONE, 'Option::<std::convert::Infallible>::None': NONE,
        'rust_decimal::Decimal::ZERO': dec_const('0'), 'rust_decimal::Decimal::ONE': dec_const('1'),
        'rust_decimal::Decimal::MAX': dec_const('79228162514264337593543950335'), 'rust_decimal::Decimal::MIN': dec_const('-79228162514264337593543950335'),
        'rust_decimal::Decimal::PI': dec_const('3.1415926535897932384626433833'), 'rust_decimal::Decimal::E': dec_const('2.7182818284590452353602874714'),
    }
    if c in tbl: return tbl[c]
    return None


# ---------------------------------------------------------------------------------------------------------
# helpers
def sv(e, st, x):
    """string value behind any number of references"""
    n = 0
    while isinstance(x, tuple) and x[0] in ('ref',) and n < 4:
        x = e.rd(st, x); n += 1
    if not (isinstance(x, tuple) and x[0] == 'str'): raise Unsupported('expected a string, got ' + str(x)[:60])
    return x


def deref_all(e, st, x):
    n = 0
    while isinstance(x, tuple) and x[0] == 'ref' and n < 4:
        x = e.rd(st, x); n += 1
    return x


def ch_eq(x, y):
    if is_sym(x) or is_sym(y): return x == y
    return x == y


def str_eq(a, b):
    if len(a) != len(b): return False
    cs = []
    for x, y in zip(a, b):
        c = ch_eq(x, y)
        if c is False: return False
        if c is not True: cs.append(c)
    return b_and(*cs)


def is_digit(c):
    if is_sym(c): return z3.And(c >= 48, c <= 57)
    return 48 <= c <= 57


def is_ws(c):
    if is_sym(c): return z3.Or([c == w for w in WHITE_SPACE])
    return c in WHITE_SPACE


def struct_eq(e, st, a, b):
    """structural equality as derived PartialEq computes it (IEEE == on floats)"""
    if isinstance(a, tuple) and a and a[0] == 'ref': a = e.rd(st, a)
    if isinstance(b, tuple) and b and b[0] == 'ref': b = e.rd(st, b)
    if is_fp(a) or is_fp(b):
        r = z3.fpEQ(a, b)
        if fp_is_conc(a) and fp_is_conc(b): return z3.is_true(z3.simplify(r))
        return r
    if not isinstance(a, tuple) and not isinstance(b, tuple):
        if is_bv(a) or is_bv(b):
            return i_cmp('Eq', a, b, 'i64')
        r = (a == b)
        return r
    ta, tb = a[0], b[0]
    if ta in ('box', 'unique'): a = st.mem[a[1]]; return struct_eq(e, st, a, b)
    if tb in ('box', 'unique'): b = st.mem[b[1]]; return struct_eq(e, st, a, b)
    if ta == 'arc' and tb == 'arc': return struct_eq(e, st, a[1], b[1])
    if ta == 'vec' and tb == 'vec':
        if len(a[1]) != len(b[1]): return False
        return b_and(*[struct_eq(e, st, x, y) for x, y in zip(a[1], b[1])])
    if ta == 'str' and tb == 'str': return str_eq(a[1], b[1])
    if ta == 'cplx' and tb == 'cplx': return b_and(struct_eq(e, st, a[1], b[1]), struct_eq(e, st, a[2], b[2]))
    if ta == 'dec' and tb == 'dec': return dec_pred('eq', a, b)
    if ta in ('adt', 'sadt') and tb in ('adt', 'sadt'):
        if ta == 'adt' and tb == 'adt':
            if a[2] != b[2]: return False
            return b_and(*[struct_eq(e, st, x, y) for x, y in zip(a[3], b[3])])
        if ta == 'adt': a, b = b, a
        if b[0] == 'adt':
            idx = e.discr(b)
            return b_and(a[2] == idx, *[struct_eq(e, st, x, y) for x, y in zip(a[3][b[2]], b[3])])
        # both symbolic
        cs = []
        for name in e.prog.enums[a[1]]:
            if name in a[3] and name in b[3]:
                i = e.prog.enums[a[1]].index(name)
                cs.append(b_and(a[2] == i, b[2] == i, *[struct_eq(e, st, x, y) for x, y in zip(a[3][name], b[3][name])]))
        return b_or(*cs)
    if ta == 'tuple' and tb == 'tuple': return b_and(*[struct_eq(e, st, x, y) for x, y in zip(a[1], b[1])])
    raise Unsupported('struct_eq %s %s' % (ta, tb))


def derived(e, st, meth, a):
    if meth == 'clone': return [(T, e.rd(st, a[0]) if a[0][0] == 'ref' else a[0])]
    if meth == 'eq': return [(T, struct_eq(e, st, a[0], a[1]))]
    if meth == 'ne': return [(T, b_not(struct_eq(e, st, a[0], a[1])))]
    if meth == 'fmt': return [(T, ok(UNIT))]
    raise Unsupported('derived ' + meth)


# ---------------------------------------------------------------------------------------------------------
# f64 library functions: uninterpreted, except those the FP theory defines exactly
def f_fmod(a, b):
    if fp_is_conc(a) and fp_is_conc(b):
        import math
        x, y = fp_to_py(a), fp_to_py(b)
        try: return fp_const(math.fmod(x, y))
        except ValueError: return fp_const(float('nan'))
    if fp_is_conc(b) and fp_to_py(b) == 1.0:
        # x % 1.0 is exact: x - trunc(x) with the sign of x (NaN for non-finite x)
        r = z3.fpSub(RNE, a, z3.fpRoundToIntegral(RTZ, a))
        r = z3.If(z3.And(z3.fpIsZero(r), z3.fpIsNegative(a)), fp_const(-0.0), r)
        return z3.If(z3.Or(z3.fpIsInf(a), z3.fpIsNaN(a)), fp_const(float('nan')), r)
    return uf_f64('fmod', a, b)


EXACT_F64 = {
    'floor': lambda a: z3.fpRoundToIntegral(RTN, a), 'ceil': lambda a: z3.fpRoundToIntegral(RTP, a),
    'trunc': lambda a: z3.fpRoundToIntegral(RTZ, a), 'round': lambda a: z3.fpRoundToIntegral(RNA, a),
    'round_ties_even': lambda a: z3.fpRoundToIntegral(RNE, a),
    'abs': lambda a: z3.fpAbs(a), 'sqrt': lambda a: z3.fpSqrt(RNE, a),
}
UF_F64_1 = ['sin', 'cos', 'tan', 'sinh', 'cosh', 'tanh', 'asin', 'acos', 'atan', 'asinh', 'acosh', 'atanh', 'exp', 'exp2', 'ln', 'log10', 'log2',
            'exp_m1', 'ln_1p', 'cbrt', 'to_degrees', 'to_radians', 'recip', 'fract']
UF_F64_2 = ['powf', 'log', 'atan2', 'hypot', 'rem_euclid', 'div_euclid', 'copysign']

import math as _m
PY_F64 = {
    'sin': _m.sin, 'cos': _m.cos, 'tan': _m.tan, 'sinh': _m.sinh, 'cosh': _m.cosh, 'tanh': _m.tanh, 'asin': _m.asin, 'acos': _m.acos,
    'atan': _m.atan, 'asinh': _m.asinh, 'acosh': _m.acosh, 'atanh': _m.atanh, 'exp': _m.exp, 'exp2': lambda x: 2.0 ** x, 'ln': _m.log,
    'log10': _m.log10, 'log2': _m.log2, 'atan2': _m.atan2, 'fmod': _m.fmod,
}


def f64_signum(a):
    # f64::signum: 1.0 if positive incl. +0.0 and +inf, -1.0 if negative incl. -0.0, NaN if NaN
    return z3.If(z3.fpIsNaN(a), a, z3.If(z3.fpIsNegative(a), fp_const(-1.0), fp_const(1.0)))


def f64_min(a, b):
    # f64::min: if one is NaN the other is returned; (-0, +0 order unspecified: keep IEEE minNum via z3 fpMin is also unspecified) -> explicit
    return z3.If(z3.fpIsNaN(a), b, z3.If(z3.fpIsNaN(b), a, z3.If(z3.fpLT(b, a), b, a)))


def f64_max(a, b):
    return z3.If(z3.fpIsNaN(a), b, z3.If(z3.fpIsNaN(b), a, z3.If(z3.fpGT(b, a), b, a)))


def f64_method(meth, a):
    if meth in EXACT_F64 and len(a) == 1: return fsimp(EXACT_F64[meth](a[0]), a[0])
    if meth == 'signum': return fsimp(f64_signum(a[0]), a[0])
    if meth == 'min': return fsimp(f64_min(a[0], a[1]), a[0], a[1])
    if meth == 'max': return fsimp(f64_max(a[0], a[1]), a[0], a[1])
    if meth == 'is_nan': return _cb(z3.fpIsNaN(a[0]), a[0])
    if meth == 'is_infinite': return _cb(z3.fpIsInf(a[0]), a[0])
    if meth == 'is_finite': return _cb(z3.Not(z3.Or(z3.fpIsInf(a[0]), z3.fpIsNaN(a[0]))), a[0])
    if meth == 'is_sign_negative': return _cb(z3.fpIsNegative(a[0]), a[0])
    if meth == 'is_sign_positive': return _cb(z3.fpIsPositive(a[0]), a[0])
    if meth == 'powi':
        return uf('uf_powi', F64, z3.IntSort(), F64)(a[0], to_int(a[1]) if is_sym(a[1]) else z3.IntVal(a[1]))
    if meth in UF_F64_1 and len(a) == 1:
        if fp_is_conc(a[0]) and meth in PY_F64: return fp_const(py_libm(meth, fp_to_py(a[0])))
        return uf_f64(meth, a[0])
    if meth in UF_F64_2 and len(a) == 2:
        if fp_is_conc(a[0]) and fp_is_conc(a[1]) and meth in ('powf', 'atan2', 'log'):
            return fp_const(py_libm(meth, fp_to_py(a[0]), fp_to_py(a[1])))
        return uf_f64(meth, a[0], a[1])
    if meth == 'mul_add': return z3.fpFMA(RNE, a[0], a[1], a[2])
    raise Unsupported('f64 method ' + meth)


def py_libm(name, *xs):
    """the platform libm through Python (same libm the Rust std calls on this machine)"""
    import math
    try:
        if name == 'powf': return _pow(xs[0], xs[1])
        if name == 'log':
            return py_libm('ln', xs[0]) / py_libm('ln', xs[1])       # f64::log(self, base) = self.ln() / base.ln()
        if name == 'ln':
            x = xs[0]
            if x != x: return x
            if x == 0: return float('-inf')
            if x < 0: return float('nan')
            return math.log(x) if x != float('inf') else x
        if name in ('log10', 'log2'):
            x = xs[0]
            if x != x: return x
            if x == 0: return float('-inf')
            if x < 0: return float('nan')
            return getattr(math, name)(x) if x != float('inf') else x
        if name == 'exp2':
            return _pow(2.0, xs[0])
        return PY_F64[name](*xs)
    except OverflowError:
        if name in ('exp', 'exp2', 'cosh'): return float('inf')
        if name == 'sinh': return float('inf') if xs[0] > 0 else float('-inf')
        return float('inf')
    except ValueError:
        return float('nan')
    except ZeroDivisionError:
        return float('nan')


def _pow(x, y):
    import math
    try:
        return math.pow(x, y)
    except OverflowError:
        # |result| overflows: sign as C pow
        neg = x < 0 and float(y).is_integer() and int(y) % 2 == 1
        return float('-inf') if neg else float('inf')
    except ValueError:
        if x == 0 and y < 0:
            return float('-inf') if (math.copysign(1.0, x) < 0 and float(y).is_integer() and int(y) % 2 == 1) else float('inf')
        return float('nan')
    except ZeroDivisionError:
        return float('inf')


def _cb(t, *args):
    if all(fp_is_conc(x) for x in args): return z3.is_true(z3.simplify(t))
    return t


# ---------------------------------------------------------------------------------------------------------
# Decimal: values are ('dec', term) with term of an uninterpreted sort; arithmetic is uninterpreted
DecSort = z3.DeclareSort('Dec')


def dec_const(text):
    """canonical abstract value of a decimal text: dec_of(coefficient, scale)"""
    neg = text.startswith('-'); t = text.lstrip('+-')
    if '.' in t: ip, fp = t.split('.')
    else: ip, fp = t, ''
    m = int((ip + fp) or '0')
    return dec_lit_sym(-m if neg else m, len(fp))


def dec_lit_sym(digits_term_int, scale):
    """decimal with integer coefficient term and concrete scale (from a literal with symbolic digits)"""
    return ('dec', uf('dec_of', z3.IntSort(), z3.IntSort(), DecSort)(digits_term_int if is_sym(digits_term_int) else z3.IntVal(digits_term_int), z3.IntVal(scale)))


def dec_new(num, scale):
    if is_conc_int(num) and is_conc_int(scale):
        s = str(abs(num))
        if scale > 0:
            s = s.rjust(scale + 1, '0'); s = s[:-scale] + '.' + s[-scale:]
        return dec_const(('-' if num < 0 else '') + s)
    if is_conc_int(scale): return dec_lit_sym(to_int(num) if is_sym(num) else num, scale)      # Decimal::new(m, s) is exactly m * 10^-s: the canonical dec_of(m, s)
    return ('dec', uf('dec_new', z3.IntSort(), z3.IntSort(), DecSort)(to_int(num) if is_sym(num) else z3.IntVal(num), to_int(scale) if is_sym(scale) else z3.IntVal(scale)))


def dec_op(name, *args):
    sorts = [DecSort] * (len(args) + 1)
    return ('dec', uf('dec_' + name, *sorts)(*[x[1] for x in args]))


def dec_pred(name, *args):
    return uf('decp_' + name, *([DecSort] * len(args) + [z3.BoolSort()]))(*[x[1] for x in args])


def dec_concrete(x):
    """(coefficient, scale) of a concrete abstract-decimal term, else None"""
    t = x[1]
    if z3.is_app(t) and t.decl().name() == 'dec_of' and z3.is_int_value(t.arg(0)) and z3.is_int_value(t.arg(1)):
        return t.arg(0).as_long(), t.arg(1).as_long()
    return None


def dec_fails(name, *args):
    """uninterpreted failure predicate of a panicking rust_decimal operation (decided for the obviously safe constant cases)"""
    cs = [dec_concrete(a) for a in args]
    if name in ('div', 'rem') and cs[-1] is not None:
        m, sc = cs[-1]
        if abs(m) >= 10 ** sc: return False         # |divisor| >= 1: neither a zero divisor nor an overflowing quotient
    if name in ('ln', 'log10') and cs[0] is not None and cs[0][0] > 0: return False
    if name == 'exp' and cs[0] is not None and abs(cs[0][0]) <= 10 ** cs[0][1]: return False
    return uf('decfail_' + name, *([DecSort] * len(args) + [z3.BoolSort()]))(*[x[1] for x in args])


DEC_PANICKING_BIN = {'Add>::add': 'add', 'Sub>::sub': 'sub', 'Mul>::mul': 'mul', 'Div>::div': 'div', 'Rem>::rem': 'rem'}
DEC_PANICKING_ASSIGN = {'AddAssign>::add_assign': 'add', 'SubAssign>::sub_assign': 'sub', 'MulAssign>::mul_assign': 'mul', 'DivAssign>::div_assign': 'div', 'RemAssign>::rem_assign': 'rem'}


# ---------------------------------------------------------------------------------------------------------
def vecv(e, st, x):
    x = deref_all(e, st, x)
    if isinstance(x, tuple) and x[0] == 'arc': x = x[1]
    if not (isinstance(x, tuple) and x[0] in ('vec', 'array')): raise Unsupported('expected a Vec, got ' + str(x)[:60])
    return x


def dispatch(e, st, raw, a):
    n0 = mirparse_strip(raw)
    # reduced-feature builds trim library paths differently (`f64::<impl f64>::floor` for `std::f64::<impl f64>::floor`)
    for n in (n0, 'std::' + n0, 'core::' + n0):
        for pat, h in HANDLERS:
            m = pat.search(n)
            if m:
                r = h(e, st, raw, n, a, m)
                if r is not None: return r
    raise Unsupported('no summary for callee ' + n0)


HANDLERS = []


def summary(pattern):
    def deco(f):
        HANDLERS.append((re.compile(pattern), f)); return f
    return deco


# ---- control plumbing ---------------------------------------------------------------------------------
@summary(r'^<Result<.*> as Try>::branch$')
def _(e, st, raw, n, a, m):
    v = a[0]
    if v[0] == 'sadt': raise Unsupported('Try::branch on symbolic Result')
    if v[2] == 'Ok': return [(T, adt('ControlFlow', 'Continue', [v[3][0]]))]
    return [(T, adt('ControlFlow', 'Break', [err(v[3][0])]))]


@summary(r'^<Option<.*> as Try>::branch$')
def _(e, st, raw, n, a, m):
    v = a[0]
    if v[0] == 'sadt':
        d = v[2]
        return [(d == 1, adt('ControlFlow', 'Continue', [v[3]['Some'][0]])), (d == 0, adt('ControlFlow', 'Break', [NONE]))]
    if v[2] == 'Some': return [(T, adt('ControlFlow', 'Continue', [v[3][0]]))]
    return [(T, adt('ControlFlow', 'Break', [NONE]))]


@summary(r'^<Option<.*> as FromResidual<Option<Infallible>>>::from_residual$')
def _(e, st, raw, n, a, m): return [(T, NONE)]


@summary(r'^<Result<(.*)> as FromResidual<Result<Infallible, (.*)>>>::from_residual$')
def _(e, st, raw, n, a, m):
    # Err(From::from(e)); identity when the error types agree, else the crate's own From impl
    tgt = split_last(m.group(1))
    src = m.group(2).strip()
    ev = a[0][3][0]
    if norm_ty(tgt) == norm_ty(src): return [(T, err(ev))]
    if 'Box<dyn' in tgt: return [(T, err(('opaque', 'dyn-error')))]      # std: From<&str / String / E: Error> for Box<dyn Error>
    f = e.prog.resolve('<%s as From<%s>>::from' % (tgt, src))
    if f is None: raise Unsupported('no From<%s> for %s' % (src, tgt))
    return [(T, ('tailcall', f, [ev], lambda s2, r: err(r)))]


def split_last(s):
    from . import mirparse
    return mirparse.split_top(s)[-1].strip()


def norm_ty(t):
    return re.sub(r'\b(std|core|alloc)::(\w+::)*', '', t).replace(' ', '')


@summary(r'^<(.*) as Into<(.*)>>::into$|^<(.*) as From<(.*)>>::from$')
def _(e, st, raw, n, a, m):
    src, dst = (m.group(1), m.group(2)) if m.group(1) else (m.group(4), m.group(3))
    if 'Box<dyn' in dst: return [(T, ('opaque', 'dyn-error'))]
    if dst == 'String' and 'str' in src: return [(T, sv(e, st, a[0]))]
    f = e.prog.resolve('<%s as From<%s>>::from' % (dst, src))
    if f: return [(T, ('tailcall', f, a, None))]
    if norm_ty(src) == norm_ty(dst): return [(T, a[0])]
    if dst == 'f64' and src in INT_TYPES: return [(T, int_to_f64(a[0], src))]
    if dst.endswith('Decimal') and src in INT_TYPES: return [(T, dec_new(a[0], 0))]
    if src in INT_TYPES and dst in INT_TYPES:
        # lossless widening conversions only (From between integer types exists only where every value fits)
        return [(T, a[0])]
    raise Unsupported('Into/From %s -> %s' % (src, dst))


@summary(r'^Box::new$')
def _(e, st, raw, n, a, m): return [(T, ('box', st.alloc(a[0])))]


@summary(r'^Arc::new$|^Rc::new$')
def _(e, st, raw, n, a, m): return [(T, ('arc', a[0]))]


@summary(r'^<Arc<.*> as Deref>::deref$|^<Rc<.*> as Deref>::deref$')
def _(e, st, raw, n, a, m):
    v = e.rd(st, a[0]); return [(T, e.temp_ref(st, v[1]))]


@summary(r'^<Box<.*> as Deref>::deref$')
def _(e, st, raw, n, a, m):
    v = e.rd(st, a[0]); return [(T, ('ref', v[1], ()))]


@summary(r'^<(Arc|Rc)<.*> as Clone>::clone$')
def _(e, st, raw, n, a, m): return [(T, e.rd(st, a[0]))]


@summary(r'^<Box<.*> as Clone>::clone$')
def _(e, st, raw, n, a, m):
    v = e.rd(st, a[0]); return [(T, ('box', st.alloc(st.mem[v[1]])))]


@summary(r'^<(Vec<.*>|String|&?str|f64|i64|bool|char|usize|Option<.*>|Complex<f64>|rust_decimal::Decimal|Decimal) as Clone>::clone$')
def _(e, st, raw, n, a, m): return [(T, e.rd(st, a[0]))]


@summary(r' as Drop>::drop$|^std::mem::drop$|^drop$|^core::mem::drop$|^std::mem::forget$')
def _(e, st, raw, n, a, m): return [(T, UNIT)]


@summary(r'^<&?(.*) as PartialEq(<.*>)?>::(eq|ne)$')
def _(e, st, raw, n, a, m):
    x = deref_all(e, st, a[0]); y = deref_all(e, st, a[1])
    r = struct_eq(e, st, x, y)
    return [(T, r if m.group(3) == 'eq' else b_not(r))]


# ---- Option / Result ------------------------------------------------------------------------------------
def opt_cases(v, some_f, none_v):
    """outcomes over an Option value that may have a symbolic discriminant"""
    if v[0] == 'sadt':
        return [(v[2] == 1, some_f(v[3]['Some'][0])), (v[2] == 0, none_v)]
    return [(T, some_f(v[3][0]) if v[2] == 'Some' else none_v)]


@summary(r'^Option::unwrap$|^Option::expect$')
def _(e, st, raw, n, a, m): return opt_cases(a[0], lambda x: x, Panic('called `Option::unwrap()` on a `None` value'))


@summary(r'^Result::unwrap$|^Result::expect$')
def _(e, st, raw, n, a, m):
    v = a[0]
    if v[0] == 'sadt': return [(v[2] == 0, v[3]['Ok'][0]), (v[2] == 1, Panic('called `Result::unwrap()` on an `Err` value'))]
    if v[2] == 'Ok': return [(T, v[3][0])]
    return [(T, Panic('called `Result::unwrap()` on an `Err` value (%s)' % raw[:60]))]


@summary(r'^Option::unwrap_or$')
def _(e, st, raw, n, a, m): return opt_cases(a[0], lambda x: x, a[1])


@summary(r'^Option::unwrap_or_default$')
def _(e, st, raw, n, a, m):
    mm = re.match(r'^Option::<(.*)>::unwrap_or_default$', raw.replace("<'_>", ''))
    ty = mm.group(1) if mm else '?'
    if ty in INT_TYPES: d = 0
    elif ty == 'f64': d = fp_const(0.0)
    elif ty == 'String': d = ('str', ())
    elif 'Complex' in ty: d = ('cplx', fp_const(0.0), fp_const(0.0))
    elif 'Decimal' in ty: d = dec_const('0')
    else: raise Unsupported('unwrap_or_default of ' + ty)
    return opt_cases(a[0], lambda x: x, d)


@summary(r'^Option::map$|^Option::and_then$')
def _(e, st, raw, n, a, m):
    v = a[0]; f = a[1]
    if v[0] == 'sadt':
        inner = v[3]['Some'][0]
        return [(v[2] == 1, lambda s2: dispatch(e, s2, raw, [some(inner), f])), (v[2] == 0, NONE)]
    if v[2] == 'None': return [(T, NONE)]
    wrap_some = n.endswith('map')
    if f[0] == 'closure' or (f[0] == 'zst' and 'closure@' in f[1]):
        body = e.closure_body(('closure', f[1]))
        return [(T, ('tailcall', body, [f, v[3][0]], (lambda s2, r: some(r)) if wrap_some else None))]
    if f[0] in ('fn', 'zst'):
        name = f[1].replace('ZeroSized: ', '')
        mm = re.match(r'^fn\(.*\) (?:-> .* )?\{(.*)\}$', name)
        if mm: name = mm.group(1)
        tgt = e.prog.resolve(name)
        if tgt: return [(T, ('tailcall', tgt, [v[3][0]], (lambda s2, r: some(r)) if wrap_some else None))]
        outs = dispatch(e, st, name, [e.temp_ref(st, v[3][0])] if 'to_string' in name else [v[3][0]])
        return [(c, some(x) if wrap_some and not isinstance(x, Panic) else x) for c, x in outs]
    raise Unsupported('Option::map with ' + str(f)[:60])


@summary(r'^Option::take$|^std::mem::take$|^core::mem::take$')
def _(e, st, raw, n, a, m):
    cur = e.rd(st, a[0])
    if n.endswith('mem::take') and not (isinstance(cur, tuple) and cur and cur[0] in ('adt', 'sadt') and 'Option' in str(cur[1])): raise Unsupported('mem::take of ' + str(cur)[:40])
    e.wr(st, a[0], NONE)
    return [(T, cur)]


@summary(r'^Option::is_some$')
def _(e, st, raw, n, a, m):
    v = e.rd(st, a[0]); return [(T, (v[2] == 1) if v[0] == 'sadt' else v[2] == 'Some')]


@summary(r'^Option::is_none$')
def _(e, st, raw, n, a, m):
    v = e.rd(st, a[0]); return [(T, (v[2] == 0) if v[0] == 'sadt' else v[2] == 'None')]


@summary(r'^Option::ok_or$')
def _(e, st, raw, n, a, m): return opt_cases(a[0], lambda x: ok(x), err(a[1]))


def call_closure(e, f, args, post=None):
    if f[0] == 'closure' or (f[0] == 'zst' and 'closure@' in f[1]):
        return ('tailcall', e.closure_body(('closure', f[1])), [f] + args, post)
    if f[0] in ('fn', 'zst'):
        name = f[1].replace('ZeroSized: ', '')
        mm = re.match(r'^fn\(.*\) (?:-> .* )?\{(.*)\}$', name)
        if mm: name = mm.group(1)
        tgt = e.prog.resolve(name)
        if tgt: return ('tailcall', tgt, args, post)
    raise Unsupported('call of function value ' + str(f)[:80])


@summary(r'^Result::map_err$')
def _(e, st, raw, n, a, m):
    v = a[0]
    if v[0] == 'sadt': raise Unsupported('map_err on symbolic Result')
    if v[2] == 'Ok': return [(T, v)]
    return [(T, call_closure(e, a[1], [v[3][0]], lambda s2, r: err(r)))]


@summary(r'^Result::map$')
def _(e, st, raw, n, a, m):
    v = a[0]
    if v[0] == 'sadt': raise Unsupported('map on symbolic Result')
    if v[2] == 'Err': return [(T, v)]
    return [(T, call_closure(e, a[1], [v[3][0]], lambda s2, r: ok(r)))]


@summary(r'^Result::and_then$')
def _(e, st, raw, n, a, m):
    v = a[0]
    if v[2] == 'Err': return [(T, v)]
    return [(T, call_closure(e, a[1], [v[3][0]], None))]


@summary(r'^Option::ok_or_else$')
def _(e, st, raw, n, a, m):
    v = a[0]
    if v[0] == 'sadt':
        return [(v[2] == 1, ok(v[3]['Some'][0])), (v[2] == 0, call_closure(e, a[1], [], lambda s2, r: err(r)))]
    if v[2] == 'Some': return [(T, ok(v[3][0]))]
    return [(T, call_closure(e, a[1], [], lambda s2, r: err(r)))]


@summary(r'^Option::unwrap_or_else$')
def _(e, st, raw, n, a, m):
    v = a[0]
    if v[0] == 'sadt': return [(v[2] == 1, v[3]['Some'][0]), (v[2] == 0, call_closure(e, a[1], [], None))]
    if v[2] == 'Some': return [(T, v[3][0])]
    return [(T, call_closure(e, a[1], [], None))]


@summary(r'^Result::unwrap_or$')
def _(e, st, raw, n, a, m): return [(T, a[0][3][0] if a[0][2] == 'Ok' else a[1])]


@summary(r'^Result::unwrap_or_default$')
def _(e, st, raw, n, a, m):
    if a[0][2] == 'Ok': return [(T, a[0][3][0])]
    mm = re.match(r'^Result::<(\w+),', raw)
    ty = mm.group(1) if mm else '?'
    if ty in INT_TYPES: return [(T, 0)]
    if ty == 'f64': return [(T, fp_const(0.0))]
    raise Unsupported('unwrap_or_default of Result<' + ty)


@summary(r'^<(\w+) as TryFrom<(\w+)>>::try_from$|^<(\w+) as TryInto<(\w+)>>::try_into$')
def _(e, st, raw, n, a, m):
    dst, src = (m.group(1), m.group(2)) if m.group(1) else (m.group(4), m.group(3))
    if dst not in INT_TYPES or src not in INT_TYPES: raise Unsupported('TryFrom %s -> %s' % (src, dst))
    x = a[0]
    lo, hi = int_range(dst)
    if is_bv(x):
        inr = b_and(i_cmp('Ge', x, max(lo, int_range(src)[0]), src), i_cmp('Le', x, min(hi, int_range(src)[1]), src))
    else:
        inr = in_range(x, dst)
    if inr is True: return [(T, ok(i_cast(x, src, dst)))]
    if inr is False: return [(T, err(('opaque', 'TryFromIntError')))]
    return [(inr, ok(i_cast(x, src, dst))), (b_not(inr), err(('opaque', 'TryFromIntError')))]


@summary(r'^Result::is_ok$')
def _(e, st, raw, n, a, m): return [(T, e.rd(st, a[0])[2] == 'Ok')]


@summary(r'^Result::is_err$')
def _(e, st, raw, n, a, m): return [(T, e.rd(st, a[0])[2] == 'Err')]


@summary(r'^Result::ok$')
def _(e, st, raw, n, a, m): return [(T, some(a[0][3][0]) if a[0][2] == 'Ok' else NONE)]


# ---- formatting (opaque) -----------------------------------------------------------------------------------
@summary(r'^core::fmt::rt::Argument|^Arguments::|^format$|^must_use$|^std::fmt::format$|^alloc::fmt::format$|^core::fmt::|^std::fmt::|^Formatter::')
def _(e, st, raw, n, a, m):
    if n in ('format', 'std::fmt::format', 'alloc::fmt::format', 'must_use'): return [(T, ('str', tuple(ord(c) for c in '<formatted>')))]
    return [(T, ('opaque', 'fmt'))]


# ---- strings and iterators -----------------------------------------------------------------------------------
@summary(r'^core::str::<impl str>::chars$')
def _(e, st, raw, n, a, m): return [(T, ('chars', sv(e, st, a[0])[1], 0))]


@summary(r'^<Chars as Iterator>::peekable$')
def _(e, st, raw, n, a, m): return [(T, ('peek', a[0][1], a[0][2], None))]


@summary(r'^<Peekable<Chars> as Iterator>::next$')
def _(e, st, raw, n, a, m):
    _, chars, pos, pk = e.rd(st, a[0])
    if pk is not None:
        e.wr(st, a[0], ('peek', chars, pos, None)); return [(T, pk)]
    if pos < len(chars):
        e.wr(st, a[0], ('peek', chars, pos + 1, None)); return [(T, some(chars[pos]))]
    return [(T, NONE)]


@summary(r'^Peekable::peek$')
def _(e, st, raw, n, a, m):
    _, chars, pos, pk = e.rd(st, a[0])
    if pk is None:
        if pos < len(chars): pk = some(chars[pos]); pos += 1
        else: pk = NONE
        e.wr(st, a[0], ('peek', chars, pos, pk))
    if pk[2] == 'None': return [(T, NONE)]
    return [(T, some(e.temp_ref(st, pk[3][0])))]


@summary(r'^Peekable::next_if_eq$|^Peekable::next_if$')
def _(e, st, raw, n, a, m): raise Unsupported('Peekable::next_if')


@summary(r'^<Peekable<Chars> as Clone>::clone$|^<Chars as Clone>::clone$')
def _(e, st, raw, n, a, m): return [(T, e.rd(st, a[0]))]


@summary(r'^<(&mut )?Peekable<Chars> as Iterator>::take$')
def _(e, st, raw, n, a, m): return [(T, ('take', a[0], a[1]))]


@summary(r'^<Peekable<Chars> as Iterator>::by_ref$')
def _(e, st, raw, n, a, m): return [(T, a[0])]


def peek_rest(it):
    _, chars, pos, pk = it
    seq = []
    if pk is not None and pk[2] == 'Some': seq.append(pk[3][0])
    if pk is not None and pk[2] == 'None': return []
    return seq + list(chars[pos:])


@summary(r'^<std::iter::Take<Peekable<Chars>> as Iterator>::collect$')
def _(e, st, raw, n, a, m):
    _, it, k = a[0]
    st.steps += min(k, len(peek_rest(it)))
    return [(T, ('str', tuple(peek_rest(it)[:k])))]


@summary(r'^<std::iter::Take<&mut Peekable<Chars>> as Iterator>::for_each$')
def _(e, st, raw, n, a, m):
    _, ref, k = a[0]
    _, chars, pos, pk = e.rd(st, ref)
    if pk is not None and k > 0:
        if pk[2] == 'None': return [(T, UNIT)]
        pk = None; k -= 1
    newpos = min(len(chars), pos + k)
    st.steps += newpos - pos
    e.wr(st, ref, ('peek', chars, newpos, pk))
    return [(T, UNIT)]


@summary(r'^<String as Deref>::deref$|^String::as_str$|^<String as AsRef<str>>::as_ref$|^<String as Borrow<str>>::borrow$|^String::as_mut_str$')
def _(e, st, raw, n, a, m): return [(T, sv(e, st, a[0]))]


@summary(r'^<str as ToString>::to_string$|^<&str as ToString>::to_string$|^<String as ToString>::to_string$|^<str as ToOwned>::to_owned$|^core::str::<impl str>::to_owned$|^String::from$|^alloc::str::<impl str>::to_owned$|^<String as Clone>::clone$|^alloc::str::<impl str>::to_string$')
def _(e, st, raw, n, a, m): return [(T, sv(e, st, a[0]))]


@summary(r'^<char as ToString>::to_string$')
def _(e, st, raw, n, a, m): return [(T, ('str', (deref_all(e, st, a[0]),)))]


@summary(r'^String::new$')
def _(e, st, raw, n, a, m): return [(T, ('str', ()))]


@summary(r'^String::push$')
def _(e, st, raw, n, a, m):
    s = e.rd(st, a[0]); e.wr(st, a[0], ('str', s[1] + (a[1],))); return [(T, UNIT)]


@summary(r'^String::push_str$')
def _(e, st, raw, n, a, m):
    s = e.rd(st, a[0]); e.wr(st, a[0], ('str', s[1] + sv(e, st, a[1])[1])); return [(T, UNIT)]


@summary(r'^String::len$|^core::str::<impl str>::len$')
def _(e, st, raw, n, a, m):
    s = sv(e, st, a[0])[1]
    n = 0
    for c in s:
        if is_sym(c):
            # one byte when the character is ASCII under the path condition (digits, points, ...)
            if e.check(c >= 128) != z3.unsat: raise Unsupported('byte length of a symbolic string with a possibly non-ASCII character')
            n += 1
        else: n += len(chr(c).encode('utf-8'))
    return [(T, n)]


@summary(r'^String::is_empty$|^core::str::<impl str>::is_empty$')
def _(e, st, raw, n, a, m): return [(T, len(sv(e, st, a[0])[1]) == 0)]


@summary(r'^char::methods::<impl char>::is_ascii_digit$')
def _(e, st, raw, n, a, m): return [(T, is_digit(deref_all(e, st, a[0])))]


@summary(r'^char::methods::<impl char>::is_whitespace$')
def _(e, st, raw, n, a, m): return [(T, is_ws(deref_all(e, st, a[0])))]


@summary(r'^char::methods::<impl char>::is_(numeric|alphabetic|alphanumeric|ascii_alphabetic|ascii_alphanumeric|ascii_whitespace)$')
def _(e, st, raw, n, a, m):
    c = deref_all(e, st, a[0]); k = m.group(1)
    if k == 'ascii_alphabetic': return [(T, b_or(b_and(c >= 65, c <= 90), b_and(c >= 97, c <= 122)))]
    if k == 'ascii_alphanumeric': return [(T, b_or(b_and(c >= 65, c <= 90), b_and(c >= 97, c <= 122), b_and(c >= 48, c <= 57)))]
    if k == 'ascii_whitespace': return [(T, b_or(*[c == w for w in (0x20, 0x9, 0xA, 0xC, 0xD)]))]
    if not is_sym(c): return [(T, getattr(chr(c), {'numeric': 'isnumeric', 'alphabetic': 'isalpha', 'alphanumeric': 'isalnum'}[k])())]
    raise Unsupported('char::is_' + k + ' on a symbolic char')


@summary(r'^char::methods::<impl char>::to_digit$')
def _(e, st, raw, n, a, m):
    c = a[0]; radix = a[1]
    if radix != 10: raise Unsupported('to_digit radix')
    d = is_digit(c)
    return [(d, some(c - 48)), (b_not(d), NONE)]


@summary(r'^core::str::<impl str>::split_whitespace$')
def _(e, st, raw, n, a, m): return [(T, ('splitws', sv(e, st, a[0])[1]))]


def strip_chars(e, st, chars, pred, cont):
    """outcomes over which of the symbolic characters satisfy pred (dropped) or not (kept)"""
    sym = [i for i, c in enumerate(chars) if is_sym(c)]
    kept_fixed = [None if is_sym(c) else (not pred(c)) for c in chars]

    def rec(i, conds, kept):
        if i == len(chars): return [(b_and(*conds), cont(tuple(kept)))]
        c = chars[i]
        if not is_sym(c):
            return rec(i + 1, conds, kept + ([c] if kept_fixed[i] else []))
        p = pred(c)
        out = []
        if e.check(*(conds + [p])) != z3.unsat: out += rec(i + 1, conds + [p], kept)
        if e.check(*(conds + [z3.Not(p)])) != z3.unsat: out += rec(i + 1, conds + [z3.Not(p)], kept + [c])
        return out
    st.steps += len(chars)
    return rec(0, [], [])


@summary(r'^<SplitWhitespace as Iterator>::collect$')
def _(e, st, raw, n, a, m):
    if 'String' not in raw: raise Unsupported('collect of SplitWhitespace into ' + raw)
    return strip_chars(e, st, a[0][1], is_ws, lambda kept: ('str', kept))


@summary(r'^core::str::<impl str>::trim$')
def _(e, st, raw, n, a, m):
    s = sv(e, st, a[0])[1]
    if any(is_sym(c) for c in s): raise Unsupported('trim on symbolic string')
    lo = 0; hi = len(s)
    while lo < hi and s[lo] in WHITE_SPACE: lo += 1
    while hi > lo and s[hi - 1] in WHITE_SPACE: hi -= 1
    return [(T, ('str', s[lo:hi]))]


@summary(r'^core::str::<impl str>::replace$|^alloc::str::<impl str>::replace$')
def _(e, st, raw, n, a, m):
    s = sv(e, st, a[0])[1]; pat = a[1]; to = sv(e, st, a[2])[1]
    if isinstance(pat, tuple): pat = sv(e, st, pat)[1]
    else: pat = (pat,)
    if len(pat) != 1 or len(to) != 0: raise Unsupported('str::replace general form')
    return strip_chars(e, st, s, lambda c: ch_eq(c, pat[0]), lambda kept: ('str', kept))


# ---- lazy adaptor pipelines over the characters / bytes of a string: filter / map with the crate's own closures, collected into a String
def _fn_value_call(e, s2, f, args, post):
    """call a closure or function value; post(state, result) continues"""
    if f[0] == 'closure' or (f[0] == 'zst' and 'closure@' in f[1]):
        return ('tailcall', e.closure_body(('closure', f[1])), [f] + args, post)
    name = f[1].replace('ZeroSized: ', '') if f[0] in ('fn', 'zst') else None
    if name is None: raise Unsupported('call of function value ' + str(f)[:80])
    mm = re.match(r'^fn\(.*\) (?:-> .* )?\{(.*)\}$', name)
    if mm: name = mm.group(1)
    tgt = e.prog.resolve(name)
    if tgt: return ('tailcall', tgt, args, post)
    if re.match(r'^<char as From<u8>>::from$', mirparse_strip(name)): return post(s2, args[0])
    outs = dispatch(e, s2, name, args)
    if len(outs) == 1 and outs[0][0] is T and not callable(outs[0][1]) and not (isinstance(outs[0][1], tuple) and outs[0][1] and outs[0][1][0] == 'tailcall'):
        return post(s2, outs[0][1])
    raise Unsupported('function value with several outcomes inside an iterator adaptor: ' + name[:60])


def run_pipe(e, st, elems, stages):
    """the collected String: elements pass the stages in order, one element after the other (as the lazy adaptors do).
    `elems` is a list of concrete elements and lazy segments ('takewhile', ref to a Peekable<Chars>, closure): such a segment pulls
    characters from the borrowed iterator until the closure answers false - the character that fails the test is consumed too, as
    Iterator::take_while does."""
    def pull(s2, ref):
        _, chars, pos, pk = e.rd(s2, ref)
        if pk is not None:
            e.wr(s2, ref, ('peek', chars, pos, None))
            return None if pk[2] == 'None' else pk[3][0]
        if pos < len(chars):
            e.wr(s2, ref, ('peek', chars, pos + 1, None)); return chars[pos]
        return None

    def element(s2, idx, kept):
        if idx == len(elems): return ('str', tuple(kept))
        s2.steps += 1
        el = elems[idx]
        if isinstance(el, tuple) and el and el[0] == 'takewhile':
            c = pull(s2, el[1])
            if c is None: return element(s2, idx + 1, kept)

            def post(s3, r, c=c):
                if r is True or r is False or not is_sym(r):
                    return stage(s3, idx, kept, c, 0, again=True) if r else element(s3, idx + 1, kept)
                return [(r, lambda s4: stage(s4, idx, kept, c, 0, again=True)), (b_not(r), lambda s4: element(s4, idx + 1, kept))]
            return _fn_value_call(e, s2, el[2], [e.temp_ref(s2, c)], post)
        return stage(s2, idx, kept, el, 0)

    def stage(s2, idx, kept, val, k, again=False):
        nxt = idx if again else idx + 1
        if k == len(stages): return element(s2, nxt, kept + [val])
        kind, f = stages[k]
        if kind == 'map':
            return _fn_value_call(e, s2, f, [val], lambda s3, r: stage(s3, idx, kept, r, k + 1, again))
        if kind == 'filter_map':
            def postfm(s3, r):
                if r[0] == 'adt':
                    return stage(s3, idx, kept, r[3][0], k + 1, again) if r[2] == 'Some' else element(s3, nxt, kept)
                if r[0] == 'sadt':
                    some_i = list(r[3]).index('Some')
                    return [(r[2] == some_i, lambda s4: stage(s4, idx, kept, r[3]['Some'][0], k + 1, again)), (r[2] != some_i, lambda s4: element(s4, nxt, kept))]
                raise Unsupported('filter_map closure result ' + str(r)[:40])
            return _fn_value_call(e, s2, f, [val], postfm)

        def post(s3, r):
            if r is True or r is False or not is_sym(r):
                return stage(s3, idx, kept, val, k + 1, again) if r else element(s3, nxt, kept)
            return [(r, lambda s4: stage(s4, idx, kept, val, k + 1, again)), (b_not(r), lambda s4: element(s4, nxt, kept))]
        return _fn_value_call(e, s2, f, [e.temp_ref(s2, val)], post)
    return [(T, lambda s2: element(s2, 0, []))]


@summary(r'^std::iter::once$|^core::iter::once$|^once$')
def _(e, st, raw, n, a, m): return [(T, ('pipe', (a[0],), ()))]


@summary(r'^<&mut Peekable<Chars> as Iterator>::take_while\b|^<Peekable<Chars> as Iterator>::take_while\b')
def _(e, st, raw, n, a, m):
    ref = a[0]
    if ref[0] != 'ref': raise Unsupported('take_while over a Peekable by value')
    return [(T, ('pipe', (('takewhile', ref, a[1]),), ()))]


@summary(r'^<(?:std::iter::)?(?:Once|Chain|Filter|Map|FilterMap|TakeWhile)<.*> as Iterator>::chain\b')
def _(e, st, raw, n, a, m):
    x, y = a[0], a[1]
    if x[0] != 'pipe' or y[0] != 'pipe' or x[2] or y[2]: raise Unsupported('chain of adaptors that already carry stages')
    return [(T, ('pipe', x[1] + y[1], ()))]


@summary(r'^core::str::<impl str>::contains\b')
def _(e, st, raw, n, a, m):
    chars = sv(e, st, a[0])[1]; pat = a[1]
    if isinstance(pat, tuple):
        pat = sv(e, st, pat)[1]
        if len(pat) != 1: raise Unsupported('str::contains with a multi-character pattern')
        pat = pat[0]
    return [(T, b_or(*[ch_eq(c, pat) for c in chars]) if chars else False)]


@summary(r'^<\{closure@[^}]*\} as Fn(?:Mut|Once)?<.*>>::call(?:_mut|_once)?$')
def _(e, st, raw, n, a, m):
    clo = a[0]
    while isinstance(clo, tuple) and clo and clo[0] == 'ref': clo = e.rd(st, clo)
    args = a[1]
    if not (isinstance(args, tuple) and args and args[0] == 'tuple'): raise Unsupported('closure call with ' + str(args)[:40])
    if not (clo[0] == 'closure' or (clo[0] == 'zst' and 'closure@' in clo[1])): raise Unsupported('call of ' + str(clo)[:40])
    body = e.closure_body(('closure', clo[1]))
    # Fn::call / FnMut::call_mut hand the closure by reference, FnOnce::call_once by value: the body's first parameter has the matching type
    self_arg = a[0] if not n.endswith('call_once') else clo
    return [(T, ('tailcall', body, [self_arg] + list(args[1]), None))]


@summary(r'^core::str::<impl str>::is_ascii$')
def _(e, st, raw, n, a, m):
    return [(T, b_and(*[(c < 128) for c in sv(e, st, a[0])[1]]))]


@summary(r'^core::str::<impl str>::bytes$|^core::str::<impl str>::as_bytes$')
def _(e, st, raw, n, a, m):
    chars = sv(e, st, a[0])[1]
    sym = [c >= 128 for c in chars if is_sym(c)]
    if any((not is_sym(c)) and c >= 128 for c in chars) or (sym and e.check(z3.Or(sym)) != z3.unsat):
        raise Unsupported('bytes of a string that may hold non-ASCII characters (UTF-8 encoding is not modelled)')
    if n.endswith('as_bytes'): return [(T, ('vec', tuple(chars)))]
    return [(T, ('pipe', tuple(chars), ()))]


@summary(r'^<Chars as Iterator>::(filter|map)\b|^<(?:std::str::)?Bytes as Iterator>::(filter|map)\b')
def _(e, st, raw, n, a, m):
    it = a[0]; kind = m.group(1) or m.group(2)
    elems = it[1][it[2]:] if it[0] == 'chars' else it[1]
    return [(T, ('pipe', tuple(elems), ((it[2] if it[0] == 'pipe' else ()) + ((kind, a[1]),))))]


@summary(r'^<(?:std::iter::)?(?:Filter|Map|Once|Chain|FilterMap|TakeWhile)<.*> as Iterator>::(filter_map|filter|map)\b')
def _(e, st, raw, n, a, m):
    it = a[0]
    if it[0] != 'pipe': raise Unsupported('adaptor over ' + str(it)[:40])
    return [(T, ('pipe', it[1], it[2] + ((m.group(1), a[1]),)))]


@summary(r'^<(?:std::iter::)?(?:Filter|Map|Once|Chain|FilterMap|TakeWhile)<.*> as Iterator>::collect\b|^<(?:std::str::)?Bytes as Iterator>::collect\b')
def _(e, st, raw, n, a, m):
    it = a[0]
    if it[0] != 'pipe' or 'String' not in raw: raise Unsupported('collect of %s into %s' % (str(it)[:30], raw[-40:]))
    return run_pipe(e, st, list(it[1]), list(it[2]))


@summary(r'^core::num::<impl u8>::is_ascii_(whitespace|digit)$')
def _(e, st, raw, n, a, m):
    c = deref_all(e, st, a[0])
    if m.group(1) == 'digit': return [(T, is_digit(c))]
    return [(T, b_or(*[c == w for w in (0x20, 0x9, 0xA, 0xC, 0xD)]))]


@summary(r'^<Chars as Iterator>::next$')
def _(e, st, raw, n, a, m):
    _, chars, pos = e.rd(st, a[0])
    if pos < len(chars):
        e.wr(st, a[0], ('chars', chars, pos + 1)); return [(T, some(chars[pos]))]
    return [(T, NONE)]


def classify_text(e, s):
    """each char of s as 'd' (digit), '.' or '?'; symbolic chars are classified with the solver under the path condition"""
    out = []
    for c in s:
        if not is_sym(c):
            out.append('d' if 48 <= c <= 57 else ('.' if c == 46 else ('+' if c == 43 else ('-' if c == 45 else '?'))))
            continue
        opts = []
        for k, cond in (('d', is_digit(c)), ('.', c == 46)):
            if e.check(cond) != z3.unsat: opts.append(k)
        if e.check(z3.Not(z3.Or(is_digit(c), c == 46))) != z3.unsat: opts.append('?')
        out.append(opts[0] if len(opts) == 1 else tuple(opts))
    return out


def split_on_ambiguous(e, st, raw, n, a, s, cls, redo):
    """fork on the first character whose class the path condition leaves open, then redo the summary"""
    for c, k in zip(s, cls):
        if isinstance(k, tuple):
            conds = {'d': is_digit(c), '.': c == 46, '?': z3.Not(z3.Or(is_digit(c), c == 46))}
            return [(conds[x], (lambda s2, redo=redo: redo(s2))) for x in k]
    return None


MAXD = [ord(ch) - 48 for ch in '9223372036854775807']


def digits_value(ds):
    val = 0
    for d in ds: val = val * 10 + d
    return val


def digits_le(ds, bound):
    """digit string (list of terms/ints, most significant first) <= bound (list of ints) numerically; lexicographic encoding"""
    if len(ds) < len(bound): return True
    k = len(ds) - len(bound)
    lead = [d == 0 for d in ds[:k]]
    rest = ds[k:]
    le = True
    for d, mx in reversed(list(zip(rest, bound))):
        lt = d < mx; eq = d == mx
        le = b_or(lt, b_and(eq, le))
    return b_and(*(lead + [le]))


@summary(r'^core::str::<impl str>::parse$')
def _(e, st, raw, n, a, m):
    ty = re.search(r'parse::<(.*)>$', raw).group(1)
    s = sv(e, st, a[0])[1]
    cls = classify_text(e, s)
    sp = split_on_ambiguous(e, st, raw, n, a, s, cls, lambda s2: dispatch(e, s2, raw, a))
    if sp is not None: return sp
    st.steps += len(s)
    if ty in ('i64', 'i32', 'u32', 'usize', 'u64', 'i128'):
        body = cls; chars = list(s); neg = False
        if body and body[0] in ('+', '-'):
            neg = body[0] == '-'; body = body[1:]; chars = chars[1:]
        if not body or any(k != 'd' for k in body): return [(T, err(('opaque', 'ParseIntError')))]
        ds = [c - 48 for c in chars]
        val = digits_value(ds)
        lo, hi = int_range(ty)
        bound = [int(ch) for ch in str(-lo if neg else hi)]
        fits = digits_le(ds, bound)
        v = -val if neg else val
        if fits is True: return [(T, ok(v))]
        if fits is False: return [(T, err(('opaque', 'ParseIntError')))]
        return [(fits, ok(v)), (z3.Not(fits), err(('opaque', 'ParseIntError')))]
    if ty == 'f64':
        if any(k not in ('d', '.') for k in cls):
            if any(k == '?' for k in cls): raise Unsupported('parse::<f64> on text outside the digit/point alphabet')
            raise Unsupported('parse::<f64> with sign')
        if cls.count('.') > 1 or cls.count('d') == 0: return [(T, err(('opaque', 'ParseFloatError')))]
        return [(T, ok(r64_of_text(s, cls)))]
    raise Unsupported('parse::<%s>' % ty)


def text_rational(s, cls):
    """exact value of a digit/point text as (numerator term, number of fractional digits)"""
    ds = [c - 48 for c, k in zip(s, cls) if k == 'd']
    frac = 0
    if '.' in cls: frac = len(cls) - cls.index('.') - 1
    return digits_value(ds), frac


def r64_of_text(s, cls):
    num, frac = text_rational(s, cls)
    if is_conc_int(num):
        txt = ''.join(chr(c) for c in s)
        return fp_const(float(txt))
    # R64 : Real -> Float64, correct rounding of the exact rational (std's contract, uninterpreted here)
    q = z3.ToReal(num) / z3.RealVal(10 ** frac)
    return uf('R64', z3.RealSort(), F64)(q)


@summary(r'^<rust_decimal::Decimal as FromStr>::from_str$|^rust_decimal::Decimal::from_str$|^Decimal::from_str_exact$|^rust_decimal::Decimal::from_str_exact$')
def _(e, st, raw, n, a, m):
    s = sv(e, st, a[0])[1]
    cls = classify_text(e, s)
    sp = split_on_ambiguous(e, st, raw, n, a, s, cls, lambda s2: dispatch(e, s2, raw, a))
    if sp is not None: return sp
    st.steps += len(s)
    if any(k not in ('d', '.') for k in cls): raise Unsupported('Decimal::from_str outside digit/point alphabet')
    if cls.count('.') > 1 or cls.count('d') == 0: return [(T, err(('opaque', 'rust_decimal::Error')))]
    if cls and cls[-1] == '.' and False: pass
    num, frac = text_rational(s, cls)
    # integral part beyond 2^96-1 is an error; fractional digits beyond what fits are rounded (documented from_str behaviour)
    intds = [c - 48 for c, k in zip(s[:cls.index('.')] if '.' in cls else s, cls) if k == 'd']
    bound = [int(ch) for ch in '79228162514264337593543950335']
    fits = digits_le(intds, bound) if intds else True
    sig = [c for c, k in zip(s, cls) if k == 'd']
    while sig and not is_sym(sig[0]) and sig[0] == 48: sig = sig[1:]       # concrete leading zeros do not count
    if len(sig) > 28 or frac > 28:
        # beyond 28 significant digits from_str rounds (and may shorten the scale): kept abstract
        val = ('dec', uf('dec_rounded', z3.IntSort(), z3.IntSort(), DecSort)(num if is_sym(num) else z3.IntVal(num), z3.IntVal(frac)))
    else:
        val = dec_lit_sym(num, frac)
    if fits is True: return [(T, ok(val))]
    if fits is False: return [(T, err(('opaque', 'rust_decimal::Error')))]
    return [(fits, ok(val)), (z3.Not(fits), err(('opaque', 'rust_decimal::Error')))]


# ---- f64 / integers ---------------------------------------------------------------------------------------------
@summary(r'^(?:std|core)::f64::<impl f64>::(\w+)$')
def _(e, st, raw, n, a, m):
    meth = m.group(1)
    if meth == 'partial_cmp' or meth == 'total_cmp': return None
    r = f64_method(meth, a)
    if meth == 'log10' and is_sym(r) and not fp_is_conc(r):
        # sound range axiom (the only fact about log10 that is used: it bounds the iteration count of Lambert W):
        # for finite x, log10(x) <= 308.26; log10 of a positive finite double is >= -323.4
        x = a[0]
        # log10 of any double is NaN, +-inf or a value in [-323.4, 308.26]; it is +inf only for +inf, -inf only for +-0, NaN for NaN and negatives
        e.assume(z3.Or(z3.fpIsNaN(r), z3.fpIsInf(r), z3.And(z3.fpLEQ(r, fp_const(308.26)), z3.fpGEQ(r, fp_const(-323.4)))))
        e.assume(z3.Implies(z3.And(z3.fpIsInf(r), z3.fpIsPositive(r)), z3.And(z3.fpIsInf(x), z3.fpIsPositive(x))))
        e.assume(z3.Implies(z3.Or(z3.fpIsNaN(x), z3.fpLT(x, fp_const(0.0))), z3.fpIsNaN(r)))
        e.assume(z3.Implies(z3.fpIsZero(x), z3.And(z3.fpIsInf(r), z3.fpIsNegative(r))))
    return [(T, r)]


@summary(r'^<f64 as PartialOrd>::partial_cmp$')
def _(e, st, raw, n, a, m):
    x = deref_all(e, st, a[0]); y = deref_all(e, st, a[1])
    un = b_or(z3.fpIsNaN(x), z3.fpIsNaN(y))
    d = z3.If(z3.fpLT(x, y), -1, z3.If(z3.fpEQ(x, y), 0, 1))
    if fp_is_conc(x) and fp_is_conc(y):
        if z3.is_true(z3.simplify(un)): return [(T, NONE)]
        dv = z3.simplify(d).as_long()
        return [(T, some(adt('Ordering', {-1: 'Less', 0: 'Equal', 1: 'Greater'}[dv])))]
    return [(un, NONE), (z3.Not(un), some(('sadt', 'Ordering', d, {'Less': (), 'Equal': (), 'Greater': ()})))]


@summary(r'^<(i64|isize|i32|usize|u32) as PartialOrd>::partial_cmp$|^<(i64|isize|i32|usize|u32) as Ord>::cmp$')
def _(e, st, raw, n, a, m):
    ty = m.group(1) or m.group(2)
    x = deref_all(e, st, a[0]); y = deref_all(e, st, a[1])
    d = ite(i_cmp('Lt', x, y, ty), -1, ite(i_cmp('Eq', x, y, ty), 0, 1))
    o = adt('Ordering', {-1: 'Less', 0: 'Equal', 1: 'Greater'}[d]) if is_conc_int(d) else ('sadt', 'Ordering', d, {'Less': (), 'Equal': (), 'Greater': ()})
    return [(T, some(o) if 'partial_cmp' in n else o)]


@summary(r'^<(.*) as PartialOrd>::(lt|le|gt|ge)$')
def _(e, st, raw, n, a, m):
    ty, op = m.group(1), m.group(2)
    base = ty.lstrip('&').strip()
    if base in INT_TYPES:
        x = deref_all(e, st, a[0]); y = deref_all(e, st, a[1])
        return [(T, i_cmp({'lt': 'Lt', 'le': 'Le', 'gt': 'Gt', 'ge': 'Ge'}[op], x, y, base))]
    if base == 'f64':
        x = deref_all(e, st, a[0]); y = deref_all(e, st, a[1])
        return [(T, {'lt': z3.fpLT, 'le': z3.fpLEQ, 'gt': z3.fpGT, 'ge': z3.fpGEQ}[op](x, y))]
    if 'Decimal' in ty:
        x = deref_all(e, st, a[0]); y = deref_all(e, st, a[1])
        return [(T, dec_pred(op, x, y))]
    f = e.prog.resolve('<%s as PartialOrd>::partial_cmp' % ty)
    if f is None: raise Unsupported('PartialOrd::%s for %s' % (op, ty))

    def post(s2, r):
        # Option<Ordering> -> bool
        if r[0] == 'sadt': raise Unsupported('symbolic Option<Ordering>')
        if r[2] == 'None': return False
        o = r[3][0]; d = e.discr(o)
        return {'lt': d == -1, 'le': d <= 0 if is_conc_int(d) else z3.Or(d == -1, d == 0), 'gt': d == 1, 'ge': d >= 0 if is_conc_int(d) else z3.Or(d == 0, d == 1)}[op]
    return [(T, ('tailcall', f, a, post))]


@summary(r'^<(i64|i32|usize|u32|isize) as Ord>::(max|min)$')
def _(e, st, raw, n, a, m):
    ty = m.group(1)
    c = i_cmp('Ge' if m.group(2) == 'max' else 'Le', a[0], a[1], ty)
    return [(T, ite(c, a[0], a[1]) if not (is_bv(a[0]) or is_bv(a[1])) else z3.If(c, to_bv(a[0], INT_TYPES[ty][0]), to_bv(a[1], INT_TYPES[ty][0])))]


def int_pow_cases(base, exp, ty):
    """exact base**exp as outcomes over a symbolic exponent (case split 0..64, beyond: |base|>=2 overflows)"""
    raise NotImplementedError


@summary(r'^core::num::<impl (i64|i32|u32|usize|u64|isize)>::(\w+)$')
def _(e, st, raw, n, a, m):
    ty, meth = m.group(1), m.group(2)
    lo, hi = int_range(ty)
    oc = e.prog.overflow_checks
    if meth in ('checked_add', 'checked_sub', 'checked_mul'):
        r, ov = i_arith({'a': 'Add', 's': 'Sub', 'm': 'Mul'}[meth[8]], a[0], a[1], ty)
        return [(b_not(ov), some(r)), (ov, NONE)] if ov is not False and ov is not True else [(T, NONE if ov else some(r))]
    if meth in ('wrapping_add', 'wrapping_sub', 'wrapping_mul'):
        return [(T, i_arith({'a': 'Add', 's': 'Sub', 'm': 'Mul'}[meth[9]], a[0], a[1], ty)[0])]
    if meth in ('overflowing_add', 'overflowing_sub', 'overflowing_mul'):
        r, ov = i_arith({'a': 'Add', 's': 'Sub', 'm': 'Mul'}[meth[12]], a[0], a[1], ty)
        return [(T, ('tuple', (r, ov)))]
    if meth in ('saturating_add', 'saturating_sub', 'saturating_mul'):
        x = i_exact({'a': 'Add', 's': 'Sub', 'm': 'Mul'}[meth[11]], a[0], a[1])
        return [(T, ite(x > hi, hi, ite(x < lo, lo, x)))]
    if meth in ('checked_div', 'checked_rem', 'checked_div_euclid', 'checked_rem_euclid'):
        x, y = a
        zero = i_cmp('Eq', y, 0, ty)
        ovf = b_and(i_cmp('Eq', x, lo, ty), i_cmp('Eq', y, -1, ty)) if lo < 0 else False
        bad = b_or(zero, ovf)
        if meth == 'checked_div': r = lambda: i_div(x, y, ty)
        elif meth == 'checked_rem': r = lambda: i_rem(x, y, ty)
        elif meth == 'checked_rem_euclid':
            def r():
                t = i_rem(x, y, ty)
                if is_bv(t): return z3.If(t < 0, z3.If(y < 0, t - y, t + y), t)
                return ite(t < 0, ite(y < 0, t - y, t + y), t)
        else:
            def r():
                q = i_div(x, y, ty); t = i_rem(x, y, ty)
                return ite(t < 0, ite(y > 0, q - 1, q + 1), q)
        if bad is True: return [(T, NONE)]
        if bad is False: return [(T, some(r()))]
        return [(bad, NONE), (b_not(bad), lambda s2: some(r()))]
    if meth in ('checked_neg', 'checked_abs'):
        x = a[0]
        isneg = i_cmp('Lt', x, 0, ty)
        ismin = i_cmp('Eq', x, lo, ty)
        val = i_neg(x, ty) if meth == 'checked_neg' else ite_int(isneg, i_neg(x, ty), x)
        if ismin is True: return [(T, NONE)]
        if ismin is False: return [(T, some(val))]
        return [(ismin, NONE), (b_not(ismin), some(val))]
    if meth in ('abs', 'wrapping_abs'):
        x = a[0]
        ismin = i_cmp('Eq', x, lo, ty)
        val = ite_int(i_cmp('Lt', x, 0, ty), i_neg(x, ty), x)
        if meth == 'wrapping_abs' or not oc:
            return [(T, val)]      # release: MIN.abs() wraps to MIN (i_neg wraps)
        if ismin is True: return [(T, Panic('attempt to negate with overflow (abs)'))]
        if ismin is False: return [(T, val)]
        return [(ismin, Panic('attempt to negate with overflow (i64::abs of MIN)')), (b_not(ismin), val)]
    if meth == 'unsigned_abs':
        x = a[0]; return [(T, ite_int(i_cmp('Lt', x, 0, ty), -to_int(x), x))]
    if meth == 'signum':
        x = a[0]
        r = ite(i_cmp('Gt', x, 0, ty), 1, ite(i_cmp('Eq', x, 0, ty), 0, -1))
        if is_bv(x): r = z3.If(x > 0, z3.BitVecVal(1, x.size()), z3.If(x == 0, z3.BitVecVal(0, x.size()), z3.BitVecVal(-1, x.size())))
        return [(T, r)]
    if meth in ('pow', 'checked_pow', 'wrapping_pow', 'saturating_pow'):
        return pow_outcomes(e, st, a[0], a[1], ty, meth, oc)
    if meth in ('rem_euclid', 'div_euclid'):
        outs = dispatch(e, st, 'core::num::<impl %s>::checked_%s' % (ty, meth), a)
        res = []
        for c, v in outs:
            if callable(v): v = v(st)
            if v[2] == 'None': res.append((c, Panic('attempt to calculate the remainder with a divisor of zero or overflow (%s)' % meth)))
            else: res.append((c, v[3][0]))
        return res
    if meth in ('is_positive', 'is_negative'):
        return [(T, i_cmp('Gt' if meth == 'is_positive' else 'Lt', a[0], 0, ty))]
    if meth in ('checked_shl', 'checked_shr'):
        x, k = a; bits = INT_TYPES[ty][0]
        okc = i_cmp('Lt', k, bits, 'u32')
        sh = lambda: i_shift('Shl' if meth.endswith('shl') else 'Shr', x, k, ty)
        if okc is True: return [(T, some(sh()))]
        if okc is False: return [(T, NONE)]
        return [(okc, lambda s2: some(sh())), (b_not(okc), NONE)]
    if meth in ('leading_zeros', 'trailing_zeros', 'count_ones'):
        if is_conc_int(a[0]):
            bits = INT_TYPES[ty][0]; u = a[0] & ((1 << bits) - 1)
            if meth == 'count_ones': return [(T, bin(u).count('1'))]
            if meth == 'leading_zeros': return [(T, bits - u.bit_length())]
            return [(T, bits if u == 0 else (u & -u).bit_length() - 1)]
        raise Unsupported(meth + ' on a symbolic integer')
    raise Unsupported('integer method ' + ty + '::' + meth)


def ite_int(c, x, y):
    if c is True: return x
    if c is False: return y
    if is_bv(x) or is_bv(y):
        bits = x.size() if is_bv(x) else y.size()
        return z3.If(c, to_bv(x, bits), to_bv(y, bits))
    return ite(c, x, y)


def pow_outcomes(e, st, base, exp, ty, meth, oc):
    """i64::pow and friends.  exp is a u32.  Exact power by case split on the exponent (0..=64), and
    |base| >= 2 with exponent > 64 overflows; base in {-1,0,1} is periodic."""
    lo, hi = int_range(ty)
    bits = INT_TYPES[ty][0]
    if is_bv(base) or is_bv(exp): raise Unsupported('pow on bit-vector operands (use Int-mode inputs for pow)')

    def result_for(val):
        ov = b_not(in_range(val, ty)) if not is_conc_int(val) else not in_range(val, ty)
        if meth == 'checked_pow':
            if ov is True: return [(T, NONE)]
            if ov is False: return [(T, some(val))]
            return [(ov, NONE), (b_not(ov), some(val))]
        if meth == 'wrapping_pow': return [(T, wrap(val, ty))]
        if meth == 'saturating_pow': return [(T, ite(val > hi, hi, ite(val < lo, lo, val)))]
        # plain pow: panics with overflow checks, wraps without
        if oc:
            if ov is True: return [(T, Panic('attempt to multiply with overflow (i64::pow)'))]
            if ov is False: return [(T, val)]
            return [(ov, Panic('attempt to multiply with overflow (i64::pow)')), (b_not(ov), val)]
        return [(T, wrap(val, ty))]
    if is_conc_int(exp):
        if is_conc_int(base): return result_for(base ** exp)
        if exp <= bits:
            v = 1
            for _ in range(exp): v = v * base
            return result_for(v)
        # large concrete exponent: base in {-1,0,1} exact, else overflow
        small = z3.And(base >= -1, base <= 1)
        v = z3.If(base == -1, z3.IntVal(-1 if exp % 2 else 1), base if exp > 0 else z3.IntVal(1))
        big = z3.IntVal(hi + 1) * z3.IntVal(2)
        return [(small, lambda s2: result_for(v)), (z3.Not(small), lambda s2: result_for(big if meth != 'pow' or oc else overflowed_pow_unknown(base, exp, ty)))]
    outs = []
    for k in range(0, bits + 1):
        outs.append((exp == k, (lambda s2, k=k: pow_outcomes(e, s2, base, k, ty, meth, oc))))
    beyond = exp > bits
    small = z3.And(base >= -1, base <= 1)
    par = z3.If(base == -1, z3.If(exp % 2 == 1, z3.IntVal(-1), z3.IntVal(1)), base)
    outs.append((z3.And(beyond, small), lambda s2: result_for(par)))
    big = z3.IntVal(hi + 1) * z3.IntVal(2)
    outs.append((z3.And(beyond, z3.Not(small)), lambda s2: result_for(big if meth != 'pow' or oc else overflowed_pow_unknown(base, exp, ty))))
    return outs


def overflowed_pow_unknown(base, exp, ty):
    """release-mode wrapped value of an overflowing power: an uninterpreted value (never equal to the exact power, which is out of range)"""
    return uf('wrapped_pow', z3.IntSort(), z3.IntSort(), z3.IntSort())(base if is_sym(base) else z3.IntVal(base), exp if is_sym(exp) else z3.IntVal(exp))


@summary(r'^core::f64::<impl f64>::(\w+)$')
def _(e, st, raw, n, a, m): return [(T, f64_method(m.group(1), a))]


# ---- Vec / slices / ranges ---------------------------------------------------------------------------------------
@summary(r'^Vec::new$|^Vec::with_capacity$')
def _(e, st, raw, n, a, m): return [(T, ('vec', ()))]


@summary(r'^Vec::push$')
def _(e, st, raw, n, a, m):
    v = e.rd(st, a[0]); e.wr(st, a[0], ('vec', v[1] + (a[1],))); return [(T, UNIT)]


@summary(r'^Vec::len$|^core::slice::<impl \[.*\]>::len$')
def _(e, st, raw, n, a, m): return [(T, len(vecv(e, st, a[0])[1]))]


@summary(r'^Vec::is_empty$|^core::slice::<impl \[.*\]>::is_empty$')
def _(e, st, raw, n, a, m): return [(T, len(vecv(e, st, a[0])[1]) == 0)]


@summary(r'^<Vec<.*> as Deref>::deref$|^<Vec<.*> as DerefMut>::deref_mut$|^Vec::as_slice$|^Vec::as_mut_slice$')
def _(e, st, raw, n, a, m): return [(T, a[0])]


@summary(r'^core::slice::<impl \[.*\]>::first$|^core::slice::<impl \[.*\]>::last$')
def _(e, st, raw, n, a, m):
    v = vecv(e, st, a[0])[1]
    if not v: return [(T, NONE)]
    return [(T, some(e.temp_ref(st, v[0] if n.endswith('first') else v[-1])))]


@summary(r'^<Vec<.*> as Index<usize>>::index$|^<\[.*\] as Index<usize>>::index$|^<Vec<.*> as IndexMut<usize>>::index_mut$')
def _(e, st, raw, n, a, m):
    v = vecv(e, st, a[0])[1]; i = a[1]
    if not is_conc_int(i):
        outs = [(i_cmp('Eq', i, k, 'usize'), e.temp_ref(st, v[k])) for k in range(len(v))]
        outs.append((i_cmp('Ge', i, len(v), 'usize'), Panic('index out of bounds')))
        return outs
    if i >= len(v) or i < 0: return [(T, Panic('index out of bounds: the len is %d but the index is %d' % (len(v), i)))]
    if 'index_mut' in n:
        r = a[0]
        while r[0] == 'ref' and e.rd(st, r)[0] == 'ref': r = e.rd(st, r)
        return [(T, ('ref', r[1], r[2] + (('i', i),)))]
    return [(T, e.temp_ref(st, v[i]))]


@summary(r'^core::slice::<impl \[.*\]>::get$')
def _(e, st, raw, n, a, m):
    v = vecv(e, st, a[0])[1]; i = a[1]
    if not is_conc_int(i): raise Unsupported('slice::get with symbolic index')
    return [(T, some(e.temp_ref(st, v[i])) if 0 <= i < len(v) else NONE)]


@summary(r'^<Vec<.*> as IntoIterator>::into_iter$')
def _(e, st, raw, n, a, m): return [(T, ('viter', vecv(e, st, a[0])[1], 0))]


@summary(r'^<std::vec::IntoIter<.*> as IntoIterator>::into_iter$|^<std::ops::Range(Inclusive)?<.*> as IntoIterator>::into_iter$|^<std::slice::Iter<.*> as IntoIterator>::into_iter$')
def _(e, st, raw, n, a, m): return [(T, a[0])]


@summary(r'^<std::vec::IntoIter<.*> as Iterator>::next$')
def _(e, st, raw, n, a, m):
    _, items, pos = e.rd(st, a[0])
    st.steps += 1
    if pos < len(items):
        e.wr(st, a[0], ('viter', items, pos + 1)); return [(T, some(items[pos]))]
    return [(T, NONE)]


@summary(r'^core::slice::<impl \[.*\]>::iter$')
def _(e, st, raw, n, a, m): return [(T, ('siter', vecv(e, st, a[0])[1], 0))]


@summary(r'^<std::slice::Iter<.*> as Iterator>::next$')
def _(e, st, raw, n, a, m):
    _, items, pos = e.rd(st, a[0])
    st.steps += 1
    if pos < len(items):
        e.wr(st, a[0], ('siter', items, pos + 1)); return [(T, some(e.temp_ref(st, items[pos])))]
    return [(T, NONE)]


@summary(r'^<std::slice::Iter<.*> as Iterator>::enumerate$|^<std::vec::IntoIter<.*> as Iterator>::enumerate$')
def _(e, st, raw, n, a, m): return [(T, ('enumer', a[0], 0))]


@summary(r'^<(?:std::iter::)?Enumerate<.*> as IntoIterator>::into_iter$')
def _(e, st, raw, n, a, m): return [(T, a[0])]


@summary(r'^<(?:std::iter::)?Enumerate<(.*)> as Iterator>::next$')
def _(e, st, raw, n, a, m):
    _, inner, idx = e.rd(st, a[0])
    kind, items, pos = inner
    st.steps += 1
    if pos < len(items):
        item = items[pos]
        e.wr(st, a[0], ('enumer', (kind, items, pos + 1), idx + 1))
        return [(T, some(('tuple', (idx, e.temp_ref(st, item) if kind == 'siter' else item))))]
    return [(T, NONE)]


@summary(r'^<std::ops::Range<(\w+)> as Iterator>::next$')
def _(e, st, raw, n, a, m):
    ty = m.group(1)
    r = e.rd(st, a[0]); lo, hi = r[3]
    c = i_cmp('Lt', lo, hi, ty)
    st.steps += 1

    def adv(s2):
        e.wr(s2, a[0], adt(r[1], None, [i_arith('Add', lo, 1, ty)[0], hi])); return some(lo)
    if c is True: return [(T, adv)]
    if c is False: return [(T, NONE)]
    return [(c, adv), (b_not(c), NONE)]


@summary(r'^std::ops::RangeInclusive::new$')
def _(e, st, raw, n, a, m): return [(T, ('rangeinc', a[0], a[1], False))]


@summary(r'^<std::ops::RangeInclusive<(\w+)> as Iterator>::next$')
def _(e, st, raw, n, a, m):
    ty = m.group(1)
    _, lo, hi, done = e.rd(st, a[0])
    st.steps += 1
    if done: return [(T, NONE)]
    lt = i_cmp('Lt', lo, hi, ty); eq = i_cmp('Eq', lo, hi, ty)

    def adv(s2):
        e.wr(s2, a[0], ('rangeinc', i_arith('Add', lo, 1, ty)[0], hi, False)); return some(lo)

    def last(s2):
        e.wr(s2, a[0], ('rangeinc', lo, hi, True)); return some(lo)
    outs = [(lt, adv), (eq, last), (b_and(b_not(lt), b_not(eq)), NONE)]
    outs = [(c, v) for c, v in outs if c is not False]
    if any(c is True for c, _ in outs): return [(T, [v for c, v in outs if c is True][0])]
    return outs


@summary(r'^<std::ops::Range(Inclusive)?<(\w+)> as Iterator>::(fold|for_each|try_fold)$')
def _(e, st, raw, n, a, m):
    """fold / for_each over an integer range: the crate's closure is called once per element (each call is a counted step)"""
    inclusive, ty, meth = bool(m.group(1)), m.group(2), m.group(3)
    if meth == 'try_fold': raise Unsupported('try_fold over a range')
    rng = a[0]
    if inclusive: lo, hi = rng[1], rng[2]
    else: lo, hi = rng[3][0], rng[3][1]
    init = a[1] if meth == 'fold' else UNIT
    f = a[2] if meth == 'fold' else a[1]

    def step(s2, acc, i):
        c = i_cmp('Le' if inclusive else 'Lt', i, hi, ty)

        def body(s3):
            s3.steps += 1
            nxt = i_arith('Add', i, 1, ty)[0]
            return call_closure(e, f, [acc, i] if meth == 'fold' else [i], lambda s4, r: step(s4, r if meth == 'fold' else UNIT, nxt))
        if c is True: return body(s2)
        if c is False: return acc
        return [(c, body), (b_not(c), acc)]
    return [(T, lambda s2: step(s2, init, lo))]


@summary(r'^std::ops::RangeInclusive::contains$|^std::ops::RangeInclusive::<.*>::contains$')
def _(e, st, raw, n, a, m):
    r = e.rd(st, a[0]); x = deref_all(e, st, a[1])
    if r[0] == 'rangeinc': lo, hi = r[1], r[2]
    else: lo, hi = r[3][0], r[3][1]
    return [(T, b_and(i_cmp('Le', lo, x, 'i64'), i_cmp('Le', x, hi, 'i64')))]


@summary(r'^std::slice::<impl \[(.*)\]>::sort_by$|^std::slice::<impl \[(.*)\]>::sort_unstable_by$|^alloc::slice::<impl \[(.*)\]>::sort_by$')
def _(e, st, raw, n, a, m):
    """insertion sort driven by the crate's comparison closure (a panic inside the closure is found);
    for a total order the result is the sorted permutation, which is what the library guarantees"""
    ref = a[0]; clo = a[1]
    while e.rd(st, ref)[0] == 'ref': ref = e.rd(st, ref)
    items = list(vecv(e, st, ref)[1])
    body = e.closure_body(clo if clo[0] == 'closure' else ('closure', clo[1]))
    nitems = len(items)
    st.steps += nitems

    def finish(s2, arr):
        e.wr(s2, ref, ('vec', tuple(arr))); return UNIT

    # insertion sort as a chain of tail calls: state (arr, i, j)
    def step(s2, arr, i, j):
        if i >= nitems: return finish(s2, arr)
        if j == 0: return step(s2, arr, i + 1, i + 1)
        x = e.temp_ref(s2, arr[j - 1]); y = e.temp_ref(s2, arr[j])
        envref = e.temp_ref(s2, clo)

        def post(s3, r, arr=arr, i=i, j=j):
            d = e.discr(r)
            if is_conc_int(d):
                if d == 1:
                    arr2 = list(arr); arr2[j - 1], arr2[j] = arr2[j], arr2[j - 1]
                    return step(s3, arr2, i, j - 1)
                return step(s3, arr, i + 1, i + 1)
            arr2 = list(arr); arr2[j - 1], arr2[j] = arr2[j], arr2[j - 1]
            return [(d == 1, lambda s4: step(s4, arr2, i, j - 1)), (d != 1, lambda s4: step(s4, arr, i + 1, i + 1))]
        return ('tailcall', body, [envref, x, y], post)
    return [(T, lambda s2: step(s2, items, 1, 1))]


# ---- Decimal -----------------------------------------------------------------------------------------------------
@summary(r'^rust_decimal::Decimal::new$|^Decimal::new$')
def _(e, st, raw, n, a, m): return [(T, dec_new(a[0], a[1]))]


@summary(r'^<rust_decimal::Decimal as (?:std::ops::)?(Add>::add|Sub>::sub|Mul>::mul|Div>::div|Rem>::rem)$')
def _(e, st, raw, n, a, m):
    op = DEC_PANICKING_BIN[m.group(1)]
    f = dec_fails(op, a[0], a[1])
    if f is False: return [(T, dec_op(op, a[0], a[1]))]
    return [(f, Panic('rust_decimal %s panics (overflow / division by zero)' % op)), (z3.Not(f), dec_op(op, a[0], a[1]))]


@summary(r'^<rust_decimal::Decimal as (?:std::ops::)?(AddAssign>::add_assign|SubAssign>::sub_assign|MulAssign>::mul_assign|DivAssign>::div_assign|RemAssign>::rem_assign)$')
def _(e, st, raw, n, a, m):
    op = DEC_PANICKING_ASSIGN[m.group(1)]
    cur = e.rd(st, a[0])
    f = dec_fails(op, cur, a[1])

    def upd(s2):
        e.wr(s2, a[0], dec_op(op, cur, a[1])); return UNIT
    if f is False: return [(T, upd)]
    return [(f, Panic('rust_decimal %s_assign panics (overflow / division by zero)' % op)), (z3.Not(f), upd)]


@summary(r'^<rust_decimal::Decimal as Neg>::neg$')
def _(e, st, raw, n, a, m): return [(T, dec_op('neg', a[0]))]


@summary(r'^rust_decimal::Decimal::(abs|floor|ceil|round|trunc|signum|normalize|fract)$|^<rust_decimal::Decimal as (?:rust_decimal::prelude::)?Signed>::(abs|signum)$')
def _(e, st, raw, n, a, m): return [(T, dec_op(m.group(1) or m.group(2), deref_all(e, st, a[0])))]


@summary(r'^rust_decimal::Decimal::(min|max)$')
def _(e, st, raw, n, a, m): return [(T, dec_op(m.group(1), a[0], a[1]))]


@summary(r'^rust_decimal::(?:Decimal|arithmetic_impls::<impl rust_decimal::Decimal>)::(checked_add|checked_sub|checked_mul|checked_div|checked_rem)$')
def _(e, st, raw, n, a, m):
    op = m.group(1)[8:]
    f = dec_fails(op, a[0], a[1])
    if f is False: return [(T, some(dec_op(op, a[0], a[1])))]
    return [(f, NONE), (z3.Not(f), some(dec_op(op, a[0], a[1])))]


@summary(r'^<rust_decimal::Decimal as rust_decimal::MathematicalOps>::(\w+)$')
def _(e, st, raw, n, a, m):
    meth = m.group(1)
    args = [deref_all(e, st, x) for x in a]
    if meth == 'sqrt':
        f = dec_fails('sqrt', *args)
        return [(f, NONE), (z3.Not(f), some(dec_op('sqrt', *args)))]
    if meth.startswith('checked_'):
        base = meth[8:]
        f = dec_fails(base, *args)
        if f is False: return [(T, some(dec_op(base, *args)))]
        return [(f, NONE), (z3.Not(f), some(dec_op(base, *args)))]
    if meth in ('ln', 'log10', 'exp', 'powd', 'powi', 'powu', 'powf', 'exp_with_tolerance', 'sin', 'cos', 'tan', 'erf', 'norm_cdf', 'norm_pdf'):
        if not all(isinstance(x, tuple) and x[0] == 'dec' for x in args): raise Unsupported('Decimal::' + meth + ' with non-decimal argument')
        f = dec_fails(meth, *args)
        if f is False: return [(T, dec_op(meth, *args))]
        return [(f, Panic('rust_decimal %s panics (overflow / outside its domain)' % meth)), (z3.Not(f), dec_op(meth, *args))]
    raise Unsupported('Decimal maths ' + meth)


@summary(r'^<rust_decimal::Decimal as PartialOrd>::partial_cmp$|^<rust_decimal::Decimal as Ord>::cmp$')
def _(e, st, raw, n, a, m):
    x = deref_all(e, st, a[0]); y = deref_all(e, st, a[1])
    d = z3.If(dec_pred('lt', x, y), -1, z3.If(dec_pred('eq', x, y), 0, 1))
    o = ('sadt', 'Ordering', d, {'Less': (), 'Equal': (), 'Greater': ()})
    return [(T, some(o) if 'partial_cmp' in n else o)]


@summary(r'^<rust_decimal::Decimal as (?:rust_decimal::prelude::)?ToPrimitive>::(to_i64|to_i32|to_u32|to_usize|to_u64|to_i128)$')
def _(e, st, raw, n, a, m):
    x = deref_all(e, st, a[0]); ty = m.group(1)[3:]
    f = dec_fails(m.group(1), x)
    v = uf('dec_' + m.group(1), DecSort, z3.IntSort())(x[1])
    lo, hi = int_range(ty)
    return [(f, NONE), (z3.Not(f), lambda s2: (e.assume(z3.And(v >= lo, v <= hi)), some(v))[1])]


@summary(r'^<rust_decimal::Decimal as (From<\w+>>::from|FromPrimitive>::from_\w+)$')
def _(e, st, raw, n, a, m):
    if 'FromPrimitive' in n:
        if is_fp(a[0]): return [(T, some(('dec', uf('dec_from_f64', F64, DecSort)(a[0]))))]
        return [(T, some(dec_new(a[0], 0)))]
    return [(T, dec_new(a[0], 0))]


@summary(r'^rust_decimal::Decimal::(is_zero|is_sign_negative|is_sign_positive|is_integer)$')
def _(e, st, raw, n, a, m): return [(T, dec_pred(m.group(1), deref_all(e, st, a[0])))]


@summary(r'^rust_decimal::Decimal::mantissa$')
def _(e, st, raw, n, a, m):
    v = uf('dec_mantissa', DecSort, z3.IntSort())(deref_all(e, st, a[0])[1])
    return [(T, lambda s2: (e.assume(z3.And(v > -(1 << 96), v < (1 << 96))), v)[1])]


@summary(r'^rust_decimal::Decimal::try_from_i128_with_scale$|^rust_decimal::Decimal::from_i128_with_scale$')
def _(e, st, raw, n, a, m):
    num, scale = a[0], a[1]
    fits = b_and(num > -(1 << 96), num < (1 << 96), scale <= 28) if (is_sym(num) or is_sym(scale)) else (-(1 << 96) < num < (1 << 96) and scale <= 28)
    val = dec_new(num, scale)
    if n.endswith('::from_i128_with_scale'):
        if fits is True: return [(T, val)]
        return [(b_not(fits), Panic('Decimal::from_i128_with_scale panics (coefficient beyond 96 bits or scale beyond 28)')), (fits, val)]
    if fits is True: return [(T, ok(val))]
    if fits is False: return [(T, err(('opaque', 'rust_decimal::Error')))]
    return [(fits, ok(val)), (b_not(fits), err(('opaque', 'rust_decimal::Error')))]


@summary(r'^rust_decimal::Decimal::scale$')
def _(e, st, raw, n, a, m): return [(T, uf('dec_scale', DecSort, z3.IntSort())(deref_all(e, st, a[0])[1]))]


# ---- Complex -----------------------------------------------------------------------------------------------------
def cx(v):
    if isinstance(v, tuple) and v[0] == 'cplx': return v
    if is_fp(v): return ('cplx', v, fp_const(0.0))
    raise Unsupported('expected complex, got ' + str(v)[:40])


def cx_uf(name, *parts):
    re_ = uf('cx_' + name + '_re', *([F64] * (len(parts) + 1)))(*parts)
    im_ = uf('cx_' + name + '_im', *([F64] * (len(parts) + 1)))(*parts)
    return ('cplx', re_, im_)


def fadd(a, b): return fsimp(z3.fpAdd(RNE, a, b), a, b)
def fsub(a, b): return fsimp(z3.fpSub(RNE, a, b), a, b)
def fmul(a, b): return fsimp(z3.fpMul(RNE, a, b), a, b)
def fdiv(a, b): return fsimp(z3.fpDiv(RNE, a, b), a, b)


def cx_mul(x, y):
    # num_complex 0.4: re = a.re*b.re - a.im*b.im ; im = a.re*b.im + a.im*b.re
    return ('cplx', fsub(fmul(x[1], y[1]), fmul(x[2], y[2])), fadd(fmul(x[1], y[2]), fmul(x[2], y[1])))


def cx_div(x, y):
    # num_complex 0.4: norm_sqr = b.re^2 + b.im^2 ; re = (a.re*b.re + a.im*b.im)/norm_sqr ; im = (a.im*b.re - a.re*b.im)/norm_sqr
    ns = fadd(fmul(y[1], y[1]), fmul(y[2], y[2]))
    return ('cplx', fdiv(fadd(fmul(x[1], y[1]), fmul(x[2], y[2])), ns), fdiv(fsub(fmul(x[2], y[1]), fmul(x[1], y[2])), ns))


@summary(r'^Complex::new$')
def _(e, st, raw, n, a, m): return [(T, ('cplx', a[0], a[1]))]


@summary(r'^<Complex<f64> as (?:std::ops::)?(Add|Sub|Mul|Div)(?:<(.*)>)?>::(add|sub|mul|div)$')
def _(e, st, raw, n, a, m):
    op = m.group(3); x = cx(a[0]); rhs_real = m.group(2) == 'f64'
    if rhs_real:
        r = a[1]
        if op == 'add': return [(T, ('cplx', fadd(x[1], r), x[2]))]
        if op == 'sub': return [(T, ('cplx', fsub(x[1], r), x[2]))]
        if op == 'mul': return [(T, ('cplx', fmul(x[1], r), fmul(x[2], r)))]
        return [(T, ('cplx', fdiv(x[1], r), fdiv(x[2], r)))]
    y = cx(a[1])
    if op == 'add': return [(T, ('cplx', fadd(x[1], y[1]), fadd(x[2], y[2])))]
    if op == 'sub': return [(T, ('cplx', fsub(x[1], y[1]), fsub(x[2], y[2])))]
    if op == 'mul': return [(T, cx_mul(x, y))]
    return [(T, cx_div(x, y))]


@summary(r'^<f64 as (?:std::ops::)?(Add|Sub|Mul|Div)<Complex<f64>>>::(add|sub|mul|div)$')
def _(e, st, raw, n, a, m):
    op = m.group(2); r = a[0]; y = cx(a[1])
    if op == 'add': return [(T, ('cplx', fadd(r, y[1]), y[2]))]
    if op == 'sub': return [(T, ('cplx', fsub(r, y[1]), fsub(fp_const(0.0), y[2])))]
    if op == 'mul': return [(T, ('cplx', fmul(r, y[1]), fmul(r, y[2])))]
    # num_complex: real / complex  =>  self / norm_sqr * conj: (r*c.re/ns, -r*c.im/ns)  [impl: Complex::new(self,0) / other? it is `self * other.inv()`-like]
    return [(T, cx_uf('rdiv', r, y[1], y[2]))]


@summary(r'^<Complex<f64> as Neg>::neg$')
def _(e, st, raw, n, a, m):
    x = cx(a[0]); return [(T, ('cplx', fsimp(z3.fpNeg(x[1]), x[1]), fsimp(z3.fpNeg(x[2]), x[2])))]


@summary(r'^Complex::(norm|arg|norm_sqr|l1_norm)$')
def _(e, st, raw, n, a, m):
    x = cx(deref_all(e, st, a[0]))
    return [(T, uf('cx_' + m.group(1), F64, F64, F64)(x[1], x[2]))]


@summary(r'^Complex::(\w+)$')
def _(e, st, raw, n, a, m):
    meth = m.group(1)
    args = [deref_all(e, st, v) for v in a]
    x = cx(args[0])
    one = ['sin', 'cos', 'tan', 'sinh', 'cosh', 'tanh', 'asin', 'acos', 'atan', 'asinh', 'acosh', 'atanh', 'sqrt', 'ln', 'exp', 'exp2', 'cbrt', 'inv', 'conj', 'log10', 'log2']
    if meth in one and len(args) == 1:
        if meth == 'conj': return [(T, ('cplx', x[1], fsimp(z3.fpNeg(x[2]), x[2])))]
        return [(T, cx_uf(meth, x[1], x[2]))]
    if meth == 'powc':
        y = cx(args[1]); return [(T, cx_uf('powc', x[1], x[2], y[1], y[2]))]
    if meth in ('powf', 'log', 'expf', 'scale', 'unscale', 'powi', 'powu'):
        y = args[1]
        if not is_fp(y): y = int_to_f64(y, 'i32')
        return [(T, cx_uf(meth, x[1], x[2], y))]
    if meth in ('is_nan', 'is_finite', 'is_infinite'):
        f = {'is_nan': lambda: z3.Or(z3.fpIsNaN(x[1]), z3.fpIsNaN(x[2])),
             'is_infinite': lambda: z3.And(z3.Not(z3.Or(z3.fpIsNaN(x[1]), z3.fpIsNaN(x[2]))), z3.Or(z3.fpIsInf(x[1]), z3.fpIsInf(x[2]))),
             'is_finite': lambda: z3.Not(z3.Or(z3.fpIsNaN(x[1]), z3.fpIsNaN(x[2]), z3.fpIsInf(x[1]), z3.fpIsInf(x[2])))}[meth]()
        return [(T, f)]
    if meth in ('i',): return [(T, ('cplx', fp_const(0.0), fp_const(1.0)))]
    raise Unsupported('Complex::' + meth)
