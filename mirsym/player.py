"""P layer: the real parser (Parser::new + parse, all of parser.rs from MIR) over a stream of K fully symbolic tokens
(the tokenizer is replaced by an environment stub), compared with the reference grammar:
   accepted(impl, K) == accepted(reference, K)   and equal trees on every accepted sequence."""
import itertools, time, traceback
import z3
from . import front

from .harness import *
from .tlayer import tok_key, fn_key, normalise_native_token
from .reference import grammar as gr, lexer as lx
from .summaries import dec_const, DecSort, PI, E_
from . import native


def placeholder_value(ev, name='ph'):
    if ev == 'i64': v = z3.Int(name); return v, z3.And(v >= I64_MIN, v <= I64_MAX)
    if ev == 'f64': return z3.FP(name, F64), True
    if ev == 'number':
        d = z3.Int(name + '_variant'); i = z3.Int(name + '_i'); f = z3.FP(name + '_f', F64)
        return ('sadt', sem.NUM, d, {'Integer': (i,), 'Float': (f,)}), z3.And(d >= 0, d <= 1, i >= I64_MIN, i <= I64_MAX)
    if ev == 'decimal': return ('dec', z3.Const(name, DecSort)), True
    if ev == 'complex': return ('cplx', z3.FP(name + '_re', F64), z3.FP(name + '_im', F64)), True
    raise KeyError(ev)


def consts_for(ev, placeholder):
    f = fp_const
    if ev == 'f64': return gr.Consts(placeholder, PI, E_, f(0.017453292519943295), f(57.2957795131), f(0.0))
    if ev == 'i64': return gr.Consts(placeholder, None, None, None, None, 0)
    if ev == 'number':
        F = lambda x: adt(sem.NUM, 'Float', [x])
        return gr.Consts(placeholder, F(PI), F(E_), F(f(0.017453292519943295)), F(f(57.2957795131)), F(f(0.0)))
    if ev == 'decimal': return gr.Consts(placeholder, dec_const('3.1415926535897932384626433833'), dec_const('2.7182818284590452353602874714'), None, None, dec_const('0'))
    if ev == 'complex':
        C = lambda x: ('cplx', x, f(0.0))
        return gr.Consts(placeholder, C(PI), C(E_), C(f(0.017453292519943295)), C(f(57.2957795131)), None)
    raise KeyError(ev)


def leaf_equal(ev, a, b):
    """z3 condition: leaf payloads are the same value (same bits / same variant / same decimal)"""
    if a is b: return True
    if ev == 'i64': return sem.same_int(a, b)
    if ev == 'f64': return a == b
    if ev == 'complex': return b_and(a[1] == b[1], a[2] == b[2])
    if ev == 'decimal': return a[1] == b[1]
    if ev == 'number':
        if a[0] == 'sadt' and b[0] == 'sadt':
            return b_and(a[2] == b[2], *[leaf_equal('i64' if k == 'Integer' else 'f64', a[3][k][0], b[3][k][0]) for k in a[3]])
        if a[0] == 'sadt': a, b = b, a
        if b[0] == 'sadt':
            idx = sem.NUMBER_VARIANTS.index(a[2])
            return b_and(b[2] == idx, leaf_equal('i64' if a[2] == 'Integer' else 'f64', a[3][0], b[3][a[2]][0]))
        if a[2] != b[2]: return False
        return leaf_equal('i64' if a[2] == 'Integer' else 'f64', a[3][0], b[3][0])
    raise KeyError(ev)


def tree_equal(ev, st, node, ref):
    """implementation Node value (adt, boxes in state memory) vs reference tree -> condition (False on shape mismatch)"""
    if node[0] in ('box', 'unique'): node = st.mem[node[1]]
    if node[0] != 'adt': raise Unsupported('symbolic node kind in a parse result')
    kind = node[2]
    if ref[0] == 'Number':
        if kind not in ('Number', 'Num'): return False
        return leaf_equal(ev, node[3][0], ref[1])
    if kind != ref[0]: return False
    if len(ref) == 2 and isinstance(ref[1], list):
        v = node[3][0]
        if v[0] == 'arc': v = v[1]
        if v[0] != 'vec' or len(v[1]) != len(ref[1]): return False
        return b_and(*[tree_equal(ev, st, c, r) for c, r in zip(v[1], ref[1])])
    if len(node[3]) != len(ref) - 1: return False
    return b_and(*[tree_equal(ev, st, c, r) for c, r in zip(node[3], ref[1:])])


def show_tree(ev, st, node, depth=0):
    if node[0] in ('box', 'unique'): node = st.mem[node[1]]
    if node[0] != 'adt': return '?'
    if node[2] in ('Number', 'Num'): return 'Number(%s)' % str(node[3][0])[:30].replace('\n', ' ')
    subs = []
    for c in node[3]:
        if c[0] == 'arc': subs += [show_tree(ev, st, x) for x in c[1][1]]
        else: subs.append(show_tree(ev, st, c))
    return '%s(%s)' % (node[2], ', '.join(subs))


def show_ref(t):
    if t[0] == 'Number': return 'Number(%s)' % str(t[1])[:30].replace('\n', ' ')
    if len(t) == 2 and isinstance(t[1], list): return '%s(%s)' % (t[0], ', '.join(show_ref(x) for x in t[1]))
    return '%s(%s)' % (t[0], ', '.join(show_ref(x) for x in t[1:]))


FN_SPELL = {}
for _w, (_f, _evs) in lx.FUNCTIONS.items():
    FN_SPELL.setdefault(_f, _w)
TOK_SPELL = {v[0]: k for k, v in lx.SINGLE.items()}
TOK_SPELL.update({'LeftShift': '<<', 'RightShift': '>>', 'Pi': 'pi', 'E': 'e', 'RadToDeg': 'rad'})
SUP = '⁰¹²³⁴⁵⁶⁷⁸⁹'


def spell(ev, seq):
    """a string whose tokens are `seq` = [(kind, fn)] with literal payloads k+2 (Num) / k+2 (Superscript) at position k, or None"""
    out = []
    prev = None
    for k, (kind, f) in enumerate(seq):
        if kind == 'Num':
            nxt = seq[k + 1][0] if k + 1 < len(seq) else None
            if prev == 'Num':
                if ev == 'i64': return None
                out.append('.5')
            elif nxt == 'Num' and ev != 'i64': out.append(str(k + 2) + '.5')      # `2.5.5`: the only way two literals can be adjacent
            else: out.append(str(k + 2))
        elif kind == 'Superscript':
            if prev == 'Superscript': return None
            out.append(SUP[(k + 2) % 10] if k + 2 < 10 else ''.join(SUP[int(d)] for d in str(k + 2)))
        elif kind == 'ExplicitFunction': out.append(FN_SPELL[f])
        elif kind in TOK_SPELL: out.append(TOK_SPELL[kind])
        else: return None
        prev = kind
    return ''.join(out)


def payload_value_for_spelling(ev, k, kind, prev_kind):
    """the concrete payload the spelled literal denotes (as a Python number)"""
    if kind == 'Num' and prev_kind == 'Num': return 0.5
    return k + 2


class ParserOb(Obligation):
    """all streams of exactly K tokens over the evaluator's full token vocabulary"""

    def __init__(self, prop, ev, K, oc=True, first=None, label=None, limits=None, judge=('accept', 'tree', 'panic'), positions=None):
        self.prop = prop; self.ev = ev; self.K = K; self.oc = oc
        self.first = first            # optional restriction of the first token kind (work splitting): list of kind names
        # template streams: positions[i] = list of allowed kinds at position i ('ExplicitFunction:Sin' selects one function,
        # 'ExplicitFunction' all of them) or None for the whole vocabulary
        self.positions = positions
        if positions is not None: self.K = K = len(positions)
        Obligation.__init__(self, label or '%s/parse/K%d%s/%s' % (ev, K, ('[' + ','.join(first) + ']') if first else '', 'dbg' if oc else 'rel'))
        self.limits = limits or {}
        self.judge = judge
        self.features = None          # cargo feature subset whose MIR is explored (None = default build)

    def run(self, ctx):
        ev = self.ev; K = self.K
        try:
            prog = ctx.prog(self.oc, self.features)
        except front.BuildError:
            if not self.features: raise
            # this feature subset does not build: reported once by the feature obligation of C17
            return dict(name=self.name, paths=0, obligations=0, discharged=0, confirmed=[], inconclusive=[], replayed=0, replay_mismatch=[], samples=[], skipped='feature subset does not build',
                        queries={}, solver_s=0, transitions=0, fns=[], summaries=[])
        nk = prog.enum_key('number::Number') or prog.enum_key('Number')
        if nk: sem.set_number_variants(prog.enums[nk])
        tk = prog.enum_key(tok_key(ev)); fk = prog.enum_key(fn_key(ev))
        tkinds = prog.enums[tk]; fkinds = prog.enums[fk]
        e = eng_mod.Engine(prog, step_limit=self.limits.get('steps', 4000), timeout_ms=self.limits.get('timeout_ms', 20000), seed=ctx.seed)
        profile = 'dev' if self.oc else 'release'
        runner = ctx.runner(profile, self.features)
        res = dict(name=self.name, paths=0, obligations=0, discharged=0, confirmed=[], inconclusive=[], replayed=0, replay_mismatch=[], samples=[],
                   ok_paths=0, err_paths=0, unspellable=0)
        ph, phc = placeholder_value(ev)
        e.assume(phc)
        consts = consts_for(ev, ph)
        kinds = [z3.Int('kind%d' % i) for i in range(K)]
        fns = [z3.Int('fn%d' % i) for i in range(K)]
        payloads = {}
        tokens = []
        for i in range(K):
            e.assume(z3.And(kinds[i] >= 0, kinds[i] < len(tkinds), kinds[i] != tkinds.index('Eof'), fns[i] >= 0, fns[i] < len(fkinds)))
            pl = {}
            for v in tkinds:
                if v in ('Num', 'Superscript'):
                    val, c = placeholder_value(ev, 'tok%d_%s' % (i, v))
                    if ev == 'number' and v == 'Superscript':      # superscripts are always Integer in eval_number? left fully symbolic
                        pass
                    e.assume(c); payloads[(i, v)] = val; pl[v] = (val,)
                elif v == 'ExplicitFunction': pl[v] = (('sadt', fk, fns[i], {n: () for n in fkinds}),)
                else: pl[v] = ()
            tokens.append(('sadt', tk, kinds[i], pl))
        if self.first:
            e.assume(z3.Or([kinds[0] == tkinds.index(f) for f in self.first]))
        pos_vocab = [None] * K
        if self.positions is not None:
            for i, allowed in enumerate(self.positions):
                if allowed is None: continue
                alts = []; pv = []
                for a in allowed:
                    if a.startswith('ExplicitFunction:'):
                        fn = a.split(':')[1]
                        if fn not in fkinds: continue
                        alts.append(z3.And(kinds[i] == tkinds.index('ExplicitFunction'), fns[i] == fkinds.index(fn))); pv.append(('ExplicitFunction', fn))
                    elif a == 'ExplicitFunction':
                        alts.append(kinds[i] == tkinds.index(a)); pv += [('ExplicitFunction', f) for f in fkinds]
                    elif a in tkinds:
                        alts.append(kinds[i] == tkinds.index(a)); pv.append((a, None))
                if not alts:
                    res['skipped'] = 'position %d has no token of this evaluator' % i
                    return self.fin(res, e, 0)
                e.assume(z3.Or(alts)); pos_vocab[i] = pv
        eof = adt(tk, 'Eof')
        TOKZ = 'eval_%s::tokenizer::Tokenizer' % ev

        def stub_new(eng, st, name, a): return [(True, adt(TOKZ, None, [0]))]

        def stub_next(eng, st, name, a):
            t = eng.rd(st, a[0]); pos = t[3][0]
            eng.wr(st, a[0], adt(TOKZ, None, [pos + 1]))
            st.steps += 1
            return [(True, some(tokens[pos] if pos < K else eof))]
        try:
            e.fn_stubs[prog.entry(ev, 'tok_new')] = stub_new
            e.fn_stubs[prog.entry(ev, 'tok_next')] = stub_next
            newfn = prog.entry(ev, 'parser_new'); parsefn = prog.entry(ev, 'parser_parse')
        except KeyError as ex:
            res['inconclusive'].append('%s: %s' % (self.name, ex)); return self.fin(res, e, 0)
        impl_ok = {}      # kind sequence -> (tree description, matched?)
        vocab = gr.vocabulary(tkinds, fkinds)
        if self.first: vocab_first = [v for v in vocab if v[0] in self.first]
        t0 = time.time()
        # reference side: every accepted sequence of exactly K tokens
        def payload_of(i, kind): return payloads[(i, kind)]
        ref_ok = {}
        for seq, tree in gr.accepted(vocab, K, consts, payload_of, pos_vocab):
            if self.first and seq[0][0] not in self.first: continue
            ref_ok[seq] = tree
        res['ref_accepted'] = len(ref_ok)

        def seqs_of_path():
            """all concrete (kind, fn) sequences the current path condition admits (all-SAT over the kind variables)"""
            out = []; blocks = []
            for _ in range(65):
                if e.check(*blocks) != z3.sat: return out
                m = e.solver.model()
                seq = []; blk = []
                for i in range(K):
                    kv = m.eval(kinds[i], model_completion=True).as_long(); kn = tkinds[kv]
                    if kn == 'ExplicitFunction':
                        fv = m.eval(fns[i], model_completion=True).as_long(); seq.append((kn, fkinds[fv])); blk.append(z3.And(kinds[i] == kv, fns[i] == fv))
                    else:
                        seq.append((kn, None)); blk.append(kinds[i] == kv)
                out.append(tuple(seq)); blocks.append(z3.Not(z3.And(blk)))
            return None

        def replay(seq, expect_ok, st, node):
            """spell the sequence, check natively that the string lexes to it, parse natively and compare"""
            s = spell(ev, seq)
            if s is None: res['unspellable'] += 1; return None
            stt, payload, _ = runner.request('TOK', ev, native.esc(s), '64')
            toks = payload.split('\t') if stt == 'OK' else []
            want = [k if k not in ('Num', 'Superscript', 'ExplicitFunction') else (k + ':' + f if k == 'ExplicitFunction' else k) for k, f in seq] + ['Eof']
            got = [normalise_native_token(ev, t) for t in toks]
            got2 = [g.split(':')[0] if g.startswith(('Num:', 'Superscript:')) else g for g in got]
            if got2 != want: res['unspellable'] += 1; return None
            ph_txt = {'i64': '7', 'f64': native.f64_bits_str(7.0), 'number': 'I7', 'decimal': 'd7', 'complex': 'c%s,%s' % (native.f64_bits_str(7.0), native.f64_bits_str(0.0))}[ev]
            stt, payload, _ = runner.request('PARSE', ev, ph_txt, native.esc(s))
            res['replayed'] += 1
            return s, stt, payload

        def on_path(p):
            res['paths'] += 1
            if p.kind == 'panic' or p.kind == 'limit':
                seqs = seqs_of_path() or []
                what = ('panic: ' if p.kind == 'panic' else 'step limit: ') + str(p.msg)
                done = False
                for seq in seqs[:8]:
                    r = replay(seq, False, p.state, None)
                    if r and r[1] in ('PANIC', 'TIMEOUT'):
                        res['confirmed'].append(dict(input=r[0], native=r[1] + ' ' + r[2], what=what, profile=profile, obligation=self.name,
                                                     key='%s|parse|%s|%s|%s' % (ev, p.kind, profile, str(p.msg)[:80]), request=['PARSE', ev, 'default', native.esc(r[0])]))
                        done = True; break
                if not done: res['inconclusive'].append('%s: %s on a token stream that no string spells or that did not reproduce (%s)' % (self.name, what, seqs[:1]))
                return
            v = p.value
            if v[0] != 'adt': res['inconclusive'].append('%s: symbolic parse result' % self.name); return
            if v[2] == 'Err': res['err_paths'] += 1; return
            res['ok_paths'] += 1
            node = v[3][0]
            seqs = seqs_of_path()
            if seqs is None:
                res['inconclusive'].append('%s: an Ok path admits more than 64 token-kind sequences' % self.name); return
            for seq in seqs:
                res['obligations'] += 1
                if seq in impl_ok:
                    res['inconclusive'].append('%s: two Ok paths for the same token sequence %s' % (self.name, seq)); continue
                ref = ref_ok.get(seq)
                desc = show_tree(ev, p.state, node)
                if ref is None:
                    impl_ok[seq] = (desc, 'not-in-reference')
                    r = replay(seq, True, p.state, node)
                    if r is not None and r[1] == 'OK':
                        res['confirmed'].append(dict(input=r[0], native='OK ' + r[2][:160], what='accepted although the input is not a well-formed expression (tokens %s)' % ' '.join(k if f is None else f for k, f in seq),
                                                     profile=profile, obligation=self.name, key='%s|parse|accepts-malformed|%s' % (ev, profile), request=['PARSE', ev, 'default', native.esc(r[0])]))
                    elif r is None:
                        res.setdefault('unspellable_accepts', []).append(' '.join(k if f is None else f for k, f in seq))
                    else:
                        res['replay_mismatch'].append(dict(input=r[0], predicted='OK', native=r[1] + ' ' + r[2][:100], obligation=self.name))
                    continue
                # same tree?
                kc = z3.And([z3.And(kinds[i] == tkinds.index(seq[i][0]), fns[i] == fkinds.index(seq[i][1]) if seq[i][1] else True) for i in range(K)]) if K else True
                te = tree_equal(ev, p.state, node, ref)
                if te is True: okq = True
                elif te is False: okq = False
                else: okq = e.check(kc, z3.Not(te)) == z3.unsat
                if okq:
                    impl_ok[seq] = (desc, 'ok'); res['discharged'] += 1
                    if res['replayed'] < 40 or (hash(seq) + ctx.seed) % 17 == 0:
                        r = replay(seq, True, p.state, node)
                        if r is not None and r[1] != 'OK':
                            res['replay_mismatch'].append(dict(input=r[0], predicted='OK', native=r[1] + ' ' + r[2][:100], obligation=self.name))
                        elif r is not None and len(res['samples']) < 3:
                            res['samples'].append(dict(obligation=self.name, input=r[0], tokens=' '.join(k if f is None else f for k, f in seq), tree=desc))
                else:
                    impl_ok[seq] = (desc, 'tree-differs')
                    r = replay(seq, True, p.state, node)
                    res['confirmed'].append(dict(input=(r[0] if r else None), native=('OK ' + r[2][:200]) if r else 'unspellable', what='parsed as %s, reference tree %s' % (desc, show_ref(ref)),
                                                 profile=profile, obligation=self.name, key='%s|parse|wrong-tree|%s' % (ev, profile), request=['PARSE', ev, 'default', native.esc(r[0])] if r else None))
        st = eng_mod.State()

        def after_new(st2, ret):
            if ret[0] != 'adt': raise Unsupported('symbolic result of Parser::new')
            if ret[2] != 'Ok':
                e.finish(st2, 'ret', value=ret); return False
            key = st2.alloc(ret[3][0])
            e.call_fn(st2, parsefn, [('ref', key, ())])
            return True
        try:
            e.on_path = on_path
            e.call_fn(st, newfn, [('str', ()), some(ph)], cont=after_new)
            e.run(st)
        except Unsupported as ex:
            res['inconclusive'].append('%s: unsupported: %s' % (self.name, ex))
        except Exception:
            res['inconclusive'].append('%s: internal error: %s' % (self.name, traceback.format_exc()[-700:]))
        # the converse: every sentence of the reference must have been accepted by some Ok path
        if not res['inconclusive']:
            for seq, tree in ref_ok.items():
                res['obligations'] += 1
                if seq in impl_ok: res['discharged'] += 1; continue
                r = replay(seq, False, None, None)
                if r is not None and r[1] != 'OK':
                    res['confirmed'].append(dict(input=r[0], native=r[1] + ' ' + r[2][:160], what='well-formed expression rejected (reference tree %s)' % show_ref(tree), profile=profile,
                                                 obligation=self.name, key='%s|parse|rejects-wellformed|%s' % (ev, profile), request=['PARSE', ev, 'default', native.esc(r[0])]))
                else:
                    res['inconclusive'].append('%s: reference sentence %s not accepted by the explored paths but not reproducible natively (%s)' % (self.name, seq, r))
        return self.fin(res, e, time.time() - t0)

    def fin(self, res, e, wall):
        res['wall_s'] = round(wall, 3)
        res['queries'] = dict(e.stats.queries); res['solver_s'] = round(e.stats.solver_s, 3); res['transitions'] = e.stats.transitions
        res['fns'] = sorted(e.stats.fns); res['summaries'] = sorted(e.stats.summaries)
        return res


def call_templates(prop, ev, oc, tag, max_args=3, fns=None):
    """f ( a1 , ... , an ) for every function token of the evaluator and n = 0..max_args: arity, argument order and the node built"""
    obs = []
    F = ['ExplicitFunction'] if fns is None else ['ExplicitFunction:' + f for f in fns]
    for n in range(0, max_args + 1):
        pos = [F, ['LeftParen']]
        for i in range(n):
            pos.append(['Num'])
            if i < n - 1: pos.append(['Comma'])
        pos.append(['RightParen'])
        obs.append(ParserOb(prop, ev, None, oc=oc, positions=pos, label='%s/call/%d-args/%s' % (ev, n, tag)))
    # malformed calls: missing / doubled commas, missing closing bracket, a second call as argument
    obs.append(ParserOb(prop, ev, None, oc=oc, positions=[F, ['LeftParen'], ['Num', 'Comma', 'RightParen'], ['Num', 'Comma', 'RightParen'], ['Num', 'Comma', 'RightParen'], ['Num', 'Comma', 'RightParen']],
                        label='%s/call/malformed/%s' % (ev, tag)))
    obs.append(ParserOb(prop, ev, None, oc=oc, positions=[F, ['LeftParen'], F, ['LeftParen'], ['Num'], ['RightParen'], ['RightParen', 'Comma'], ['Num', 'RightParen'], ['RightParen']],
                        label='%s/call/nested/%s' % (ev, tag)))
    return obs
