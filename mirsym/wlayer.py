"""W layer: the public eval_* functions end to end (mod.rs from MIR: whitespace stripping, the real tokenizer, parser,
evaluator and the error conversions) on strings with symbolic characters and a symbolic placeholder."""
import z3

from .harness import *
from .tlayer import CharLeaf, model_string, digit, superdigit
from .player import placeholder_value
from . import native


class PhLeaf:
    """the symbolic placeholder as a 'leaf' (for model blocking and rendering)"""

    def __init__(self, ev, name='ph', variant=None):
        self.ev = ev; self.name = name
        self.val, self.constraint = placeholder_value(ev, name)
        if ev == 'number' and variant is not None:
            # a Number placeholder of a fixed variant (bit-vector integer / double)
            if variant == 'Integer': v = z3.BitVec(name + '_i', 64); self.val = adt(sem.NUM, 'Integer', [v]); self.constraint = True
            else: v = z3.FP(name + '_f', F64); self.val = adt(sem.NUM, 'Float', [v]); self.constraint = True
        self.var = self.val if not isinstance(self.val, tuple) else (('cplx', self.val[1], self.val[2]) if self.val[0] == 'cplx' else z3.Int('unused_' + name))

    def value(self): return self.val

    def render(self, cz):
        if self.ev == 'decimal': return 'd7'       # abstract decimals cannot be concretised: natively replayed with 7
        return render_value(self.ev, self.val, cz)


class PublicOb(EvalArm):
    """eval_<ev>(string, placeholder) vs a reference given as cases over (chars, placeholder)"""

    def __init__(self, prop, ev, chars, ref_fn, label, oc=True, limits=None, assume=None, replay_cap=200, ph=None):
        EvalArm.__init__(self, prop, ev, 'eval', None, None, oc=oc, label=label, limits=limits or {'steps': 6000, 'timeout_ms': 30000}, assume=assume, replay_cap=replay_cap)
        self.chars = chars; self.ph = ph or PhLeaf(ev)
        self.ref_fn = lambda vals: ref_fn(self.char_terms(), self.ph.value())

    def char_terms(self):
        return [c.var if isinstance(c, CharLeaf) else c for c in self.chars]

    def setup(self, ctx, prog, e, st, runner):
        ev = self.ev
        entry = prog.entry(ev, 'public')
        chars = tuple(self.char_terms())
        leaves = [c for c in self.chars if isinstance(c, CharLeaf)] + [self.ph]
        ob = self

        def native_of(cz):
            s = model_string(chars, cz)
            pht = ob.ph.render(cz)
            if ev == 'decimal':
                # the placeholder is an abstract decimal: look for a boundary value that shows the outcome under confirmation
                from .decimal import POOL
                want = ob.want_status; first = None
                for v in ['7'] + POOL:
                    stt, payload, us = runner.request('EVAL', ev, 'd' + v, native.esc(s), timeout=3.0)
                    if first is None: first = (stt, payload, us, v)
                    if want is None or stt == want: return '%r @=d%s' % (s, v), stt, payload, us
                    if stt in ('PANIC', 'TIMEOUT'): return '%r @=d%s' % (s, v), stt, payload, us
                return '%r @=d%s' % (s, first[3]), 'NOWITNESS', first[0] + ' ' + first[1], 0
            stt, payload, us = runner.request('EVAL', ev, pht, native.esc(s))
            return '%r @=%s' % (s, pht), stt, payload, us
        self.want_status = None
        return entry, [('str', chars), self.ph.value()], leaves, native_of

    def outcome_of(self, p, e):
        out = EvalArm.outcome_of(self, p, e)
        self.want_status = {'panic': 'PANIC', 'limit': 'TIMEOUT', 'err': 'ERR', 'ok': 'OK'}[out[0]]
        return out

    def render(self, v, cz):
        if self.ev == 'decimal': return 'dec?'
        return render_value(self.ev, v, cz)


def any_outcome(chars, ph):
    """no reference beyond panic-freedom and termination"""
    return [(True, sem.ANY)]


def render_decimal(v, cz, ph=None):
    """decimal values are abstract: only the placeholder itself (replayed as 7) and literal constants have a concrete rendering"""
    t = v[1]
    if ph is not None and t.get_id() == ph[1].get_id(): return 'dm7e0'
    if z3.is_app(t) and t.decl().name() == 'dec_of':
        try: return 'dm%de%d' % (cz.int(t.arg(0)), cz.int(t.arg(1)))
        except Exception: pass
    return 'dec?'
