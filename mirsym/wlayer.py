"""W layer: the public eval_* functions end to end (mod.rs from MIR: whitespace stripping, the real tokenizer, parser,
evaluator and the error conversions) on strings with symbolic characters and a symbolic placeholder."""
import z3

from .harness import *
from .tlayer import CharLeaf, model_string, digit, superdigit
from .player import placeholder_value, leaf_equal
from . import native


class PhLeaf:
    """the symbolic placeholder as a 'leaf' (for model blocking and rendering)"""

    def __init__(self, ev, name='ph', variant=None):
        self.ev = ev; self.name = name
        self.val, self.constraint = placeholder_value(ev, name)
        if ev == 'number' and variant is not None:
            # a Number placeholder of a fixed variant (bit-vector integer / double)
            if variant == 'Integer': v = z3.BitVec(name + '_i', 64); self.val = adt(sem.NUM, 'Integer', [v]); self.constraint = True
            else: v = z3.FP(name + '_f', F64); self.val = adt(sem.NUM, 'Float', [v]); self.constraint = True
        self.var = self.val if not isinstance(self.val, tuple) else (('cplx', self.val[1], self.val[2]) if self.val[0] == 'cplx' else z3.Int('unused_' + name))

    def value(self): return self.val

    def render(self, cz):
        if self.ev == 'decimal': return 'd7'       # abstract decimals cannot be concretised: natively replayed with 7
        return render_value(self.ev, self.val, cz)


class PublicOb(EvalArm):
    """eval_<ev>(string, placeholder) vs a reference given as cases over (chars, placeholder)"""

    def __init__(self, prop, ev, chars, ref_fn, label, oc=True, limits=None, assume=None, replay_cap=200, ph=None):
        EvalArm.__init__(self, prop, ev, 'eval', None, None, oc=oc, label=label, limits=limits or {'steps': 6000, 'timeout_ms': 30000}, assume=assume, replay_cap=replay_cap)
        self.chars = chars; self.ph = ph or PhLeaf(ev)
        self.ref_fn = lambda vals: ref_fn(self.char_terms(), self.ph.value())

    def char_terms(self):
        return [c.var if isinstance(c, CharLeaf) else c for c in self.chars]

    def setup(self, ctx, prog, e, st, runner):
        ev = self.ev
        entry = prog.entry(ev, 'public')
        chars = tuple(self.char_terms())
        leaves = [c for c in self.chars if isinstance(c, CharLeaf)] + [self.ph]
        ob = self

        def native_of(cz):
            s = model_string(chars, cz)
            pht = ob.ph.render(cz)
            if ev == 'decimal':
                # the placeholder is an abstract decimal: look for a boundary value that shows the outcome under confirmation
                from .decimal import POOL
                want = ob.want_status; first = None
                for v in ['7'] + POOL:
                    stt, payload, us = runner.request('EVAL', ev, 'd' + v, native.esc(s), timeout=3.0)
                    if first is None: first = (stt, payload, us, v)
                    if want is None or stt == want: return '%r @=d%s' % (s, v), stt, payload, us
                    if stt in ('PANIC', 'TIMEOUT'): return '%r @=d%s' % (s, v), stt, payload, us
                return '%r @=d%s' % (s, first[3]), 'NOWITNESS', first[0] + ' ' + first[1], 0
            stt, payload, us = runner.request('EVAL', ev, pht, native.esc(s))
            return '%r @=%s' % (s, pht), stt, payload, us
        self.want_status = None
        return entry, [('str', chars), self.ph.value()], leaves, native_of

    def outcome_of(self, p, e):
        out = EvalArm.outcome_of(self, p, e)
        self.want_status = {'panic': 'PANIC', 'limit': 'TIMEOUT', 'err': 'ERR', 'ok': 'OK'}[out[0]]
        return out

    def render(self, v, cz):
        if self.ev == 'decimal': return 'dec?'
        return render_value(self.ev, v, cz)


def any_outcome(chars, ph):
    """no reference beyond panic-freedom and termination"""
    return [(True, sem.ANY)]


def render_decimal(v, cz, ph=None):
    """decimal values are abstract: only the placeholder itself (replayed as 7) and literal constants have a concrete rendering"""
    t = v[1]
    if ph is not None and t.get_id() == ph[1].get_id(): return 'dm7e0'
    if z3.is_app(t) and t.decl().name() == 'dec_of':
        try: return 'dm%de%d' % (cz.int(t.arg(0)), cz.int(t.arg(1)))
        except Exception: pass
    return 'dec?'


# strings that Rust's (and other) number readers take but that are no expression of any evaluator: confirmation witnesses for a
# public function that answers Ok without going through tokenizer, parser and evaluator
BYPASS_POOL = ['1e5', '1E5', '1e-3', '2.5e+2', 'inf', '-inf', '+inf', 'infinity', 'Infinity', 'nan', 'NaN', '-nan', '0x10', '1_000', '+', '-', '', '()', '1 2', '1..2',
               '2.', '5.', '1,2', '１', '٣', 'true', '1f64', '1i', '1u8', '1/', '@@', '1@', '@1', 'π2', '2π', 'ee', '1ee']


# well-formed inputs with values that a post-processing step of a public function would be likely to change (whole-valued floats,
# signed zeros, non-finite values, boundaries): the public function must return what ast::eval returns on the parsed tree
VALUE_POOL = ['0.5*4', '-0.0', '0*-1', '-0', '2.0', '7', '@', '1/3', '1/0', '-1/0', '0/0', '2^63', '2^64', '-2^63', '9007199254740993', '9223372036854775807', '0.1+0.2', '1.10*3', '3!', 'pi', 'e',
              '2^0.5', '10/4', '4/2', '1.50', '1.0*1.0', '100*0.01', 'i*i', '2i', '1/3*3', '(-8)^(1/3)', '5%3', '-5%3', '7/7', '0.0', '1e', '2^-1', '2^(0-1)', 'abs(-0.0)', 'sqrt(4)', 'floor(2.5)', 'round(-0.4)']


class PipelineOb(Obligation):
    """mod.rs of one evaluator from MIR with Parser::new, Parser::parse and ast::eval replaced by nondeterministic stubs (each
    answers Ok(fresh) or Err(fresh)): the public function is exactly  eval(parse(new(strip(input), Some(placeholder)))) -
    Ok(v) only when all three stages answered Ok, with v the evaluator's value, the parser fed with the whitespace-free input
    and the caller's placeholder, the evaluator fed with the parser's tree; Err when any stage answers Err."""

    def __init__(self, prop, ev, K, oc=True, label=None):
        self.prop = prop; self.ev = ev; self.K = K; self.oc = oc
        Obligation.__init__(self, label or '%s/pipeline/len%d/%s' % (ev, K, 'dbg' if oc else 'rel'))

    def run(self, ctx):
        import time, traceback
        from . import engine as eng_mod
        from .summaries import is_ws as is_white_space
        ev = self.ev; K = self.K
        prog = ctx.prog(self.oc, None)
        nk = prog.enum_key('number::Number') or prog.enum_key('Number')
        if nk: sem.set_number_variants(prog.enums[nk])
        e = eng_mod.Engine(prog, step_limit=4000, timeout_ms=20000, seed=ctx.seed)
        profile = 'dev' if self.oc else 'release'
        runner = ctx.runner(profile, None)
        res = dict(name=self.name, paths=0, obligations=0, discharged=0, confirmed=[], inconclusive=[], replayed=0, replay_mismatch=[], samples=[])
        t0 = time.time()
        chars = [CharLeaf('c%d' % i) for i in range(K)]
        for c in chars: e.assume(c.constraint)
        phl = PhLeaf(ev); ph = phl.value()
        if phl.constraint is not True: e.assume(phl.constraint)
        cvars = [c.var for c in chars]
        try:
            newfn = prog.entry(ev, 'parser_new'); parsefn = prog.entry(ev, 'parser_parse'); evalfn = prog.entry(ev, 'eval'); pub = prog.entry(ev, 'public')
        except KeyError as ex:
            res['inconclusive'].append('%s: %s' % (self.name, ex)); return self.fin(res, e, 0)
        b = {k: z3.Bool('stage_%s_ok' % k) for k in ('new', 'parse', 'eval')}
        PARSER = ('opaque', 'parser'); TREE = ('opaque', 'tree')
        resv, resc = placeholder_value(ev, 'evalresult')
        if resc is not True: e.assume(resc)
        errs = {k: adt('utils::parse_error::ParseError', 'UnableToParse', [('str', tuple(ord(x) for x in 'stage ' + k))]) for k in b}

        LOGKEY = ('pipeline', 'log')

        def log(st): return st.mem.get(LOGKEY, ())

        def stub_new(eng, st, name, a):
            s = eng.rd(st, a[0]) if a[0][0] == 'ref' else a[0]
            st.mem[LOGKEY] = log(st) + (('new', s, a[1]),)
            return [(b['new'], ok(PARSER)), (z3.Not(b['new']), err(errs['new']))]

        def stub_parse(eng, st, name, a):
            p = eng.rd(st, a[0]) if a[0][0] == 'ref' else a[0]
            st.mem[LOGKEY] = log(st) + (('parse', p),)
            return [(b['parse'], ok(TREE)), (z3.Not(b['parse']), err(errs['parse']))]

        def stub_eval(eng, st, name, a):
            st.mem[LOGKEY] = log(st) + (('eval', a[0]),)
            return [(b['eval'], ok(resv)), (z3.Not(b['eval']), err(errs['eval']))]
        e.fn_stubs[newfn] = stub_new; e.fn_stubs[parsefn] = stub_parse; e.fn_stubs[evalfn] = stub_eval

        def stripped_ok(s, cz_free=True):
            """the string handed to the parser is the input without its White_Space characters: z3 condition (or Python bool)"""
            if s[0] != 'str': return False
            got = list(s[1])
            # on this path every input character has been decided white or not by the path condition; compare by solver:
            # got must equal the subsequence of non-white characters
            conds = []
            j = 0
            nonwhite = []
            for c in cvars:
                w = is_white_space(c)
                r = e.check(w)
                r2 = e.check(z3.Not(w))
                if r == z3.sat and r2 == z3.sat: return None      # undecided on this path
                if r2 == z3.sat: nonwhite.append(c)
            if len(nonwhite) != len(got): return False
            for x, y in zip(got, nonwhite):
                if is_sym(x) or is_sym(y):
                    if e.check(x != y) != z3.unsat: return False
                elif x != y: return False
            return True

        def bad(p, what):
            """a path of the public function that departs from the pipeline: look for a natively reproducing input"""
            res['obligations'] += 1
            out = impl_outcome(p)
            found = None
            if out[0] in ('ok', 'panic', 'limit'):
                # inputs on which the real stages answer Err although the public function answers Ok (or the reverse)
                ph_txt = {'i64': '7', 'f64': native.f64_bits_str(7.0), 'number': 'I7', 'decimal': 'd7', 'complex': 'c%s,%s' % (native.f64_bits_str(7.0), native.f64_bits_str(0.0))}[ev]
                for s in BYPASS_POOL:
                    if len([c for c in s if not c.isspace()]) > 40: continue
                    st1, pl1, _ = runner.request('EVAL', ev, ph_txt, native.esc(s))
                    st2, pl2, _ = runner.request('PARSE', ev, ph_txt, native.esc(''.join(c for c in s if not c.isspace())))
                    res['replayed'] += 1
                    if st1 in ('PANIC', 'TIMEOUT') or (st1 == 'OK' and st2 != 'OK'):
                        found = (s, st1 + ' ' + pl1[:120], st2 + ' ' + pl2[:80]); break
            if not found and out[0] in ('ok', 'err'):
                # inputs and placeholders on which the public function and eval(parse(input)) called directly give different answers
                fb = native.f64_bits_str
                PHS = {'i64': ['7', '-9223372036854775808'], 'f64': [fb(7.0), fb(-0.0), fb(float('nan')), fb(2.5)], 'number': ['I7', 'F' + fb(2.0), 'F' + fb(-0.0), 'F' + fb(2.5), 'I-9223372036854775808'], 'decimal': ['d7', 'd2.50'],
                       'complex': ['c%s,%s' % (fb(7.0), fb(0.0)), 'c%s,%s' % (fb(-0.0), fb(1e-12))]}[ev]
                for ph_txt in PHS:
                    for s in ['@', '3*@', '1/@', '@!', '@+@'] + VALUE_POOL:
                        st2, tree, _ = runner.request('PARSE', ev, ph_txt, native.esc(s))
                        if st2 != 'OK': continue
                        st3, direct, _ = runner.request('AST', ev, tree)
                        st1, pl1, _ = runner.request('EVAL', ev, ph_txt, native.esc(s))
                        res['replayed'] += 1
                        if st3 in ('OK', 'ERR') and (st1 != st3 or (st1 == 'OK' and pl1 != direct)):
                            found = ('%s @=%s' % (s, ph_txt), st1 + ' ' + pl1[:120], 'a tree on which ast::eval called directly gives ' + st3 + ' ' + direct[:80]); break
                    if found: break
            if found:
                res['confirmed'].append(dict(input=found[0], native=found[1], what='%s; natively the parser alone answers %s' % (what, found[2]), profile=profile, obligation=self.name,
                                             key='%s|pipeline|%s' % (ev, what[:60]), request=['EVAL', ev, (found[0].split(' @=')[1] if ' @=' in found[0] else 'default'), native.esc(found[0].split(' @=')[0])]))
            else:
                res['inconclusive'].append('%s: %s (no input of the witness pool reproduces it)' % (self.name, what))

        def on_path(p):
            res['paths'] += 1
            lg = p.state.mem.get(LOGKEY, ())
            stages = [x[0] for x in lg]
            if p.kind in ('panic', 'limit'):
                return bad(p, 'the public function itself %s (%s) after stages %s' % (p.kind, p.msg, stages))
            v = p.value
            if v[0] != 'adt' or v[2] not in ('Ok', 'Err'):
                res['inconclusive'].append('%s: symbolic result' % self.name); return
            # which stages answered Ok on this path?
            def holds(c): return e.check(z3.Not(c)) == z3.unsat
            if v[2] == 'Ok':
                if stages != ['new', 'parse', 'eval'] or not all(holds(b[k]) for k in b):
                    return bad(p, 'Ok returned after stages %s (not new, parse, eval all answering Ok)' % stages)
                _, s, pharg = lg[0]
                so = stripped_ok(s)
                if so is not True:
                    return bad(p, 'Parser::new was not given the input without its White_Space characters')
                if not (pharg[0] == 'adt' and pharg[2] == 'Some' and leaf_equal_struct(ev, pharg[3][0], ph, e)):
                    return bad(p, 'Parser::new was not given Some(placeholder)')
                if lg[1][1] != PARSER: return bad(p, 'Parser::parse was not called on the parser built by Parser::new')
                if lg[2][1] != TREE: return bad(p, 'eval was not called on the tree returned by Parser::parse')
                if not leaf_equal_struct(ev, v[3][0], resv, e): return bad(p, 'the value returned is not the value computed by eval')
                res['obligations'] += 1; res['discharged'] += 1
                if len(res['samples']) < 2: res['samples'].append(dict(obligation=self.name, path='Ok', stages=stages))
            else:
                # Err: some stage must have answered Err (the public function adds no failure of its own)
                failed = [k for k in stages if holds(z3.Not(b[k]))]
                if not failed: return bad(p, 'Err returned although every stage called (%s) answered Ok' % stages)
                res['obligations'] += 1; res['discharged'] += 1
        st = eng_mod.State()
        try:
            e.on_path = on_path
            e.call_fn(st, pub, [('str', tuple(cvars)), ph])
            e.run(st)
        except Unsupported as ex:
            res['inconclusive'].append('%s: unsupported: %s' % (self.name, ex))
        except Exception:
            res['inconclusive'].append('%s: internal error: %s' % (self.name, traceback.format_exc()[-700:]))
        if not res['inconclusive'] and not res['confirmed'] and res['paths'] == 0:
            res['inconclusive'].append('%s: no path explored' % self.name)
        return self.fin(res, e, time.time() - t0)

    def fin(self, res, e, wall):
        res['wall_s'] = round(wall, 3)
        res['queries'] = dict(e.stats.queries); res['solver_s'] = round(e.stats.solver_s, 3); res['transitions'] = e.stats.transitions
        res['fns'] = sorted(e.stats.fns); res['summaries'] = sorted(e.stats.summaries)
        return res


def leaf_equal_struct(ev, a, bb, e):
    """a and bb denote the same value on the current path (identical terms, or equal under the path condition)"""
    if a is bb: return True
    if not _has_z3(a) and not _has_z3(bb) and a == bb: return True
    try:
        c = leaf_equal(ev, a, bb)
    except Exception:
        return False
    if c is True: return True
    if c is False: return False
    return e.check(z3.Not(c)) == z3.unsat


def _has_z3(v):
    if isinstance(v, z3.ExprRef): return True
    if isinstance(v, (tuple, list)): return any(_has_z3(x) for x in v)
    if isinstance(v, dict): return any(_has_z3(x) for x in v.values())
    return False
