"""C05 eval_f64 is IEEE-754 double arithmetic; non-finite results are values."""
import z3
from ..harness import *
from ..reference import semantics as sem
from ..wlayer import PublicOb
from ..tlayer import digit

BIN = ['Add', 'Subtract', 'Multiply', 'Divide', 'Modulo', 'Pow']
UN = ['Negative', 'Abs', 'Floor', 'Ceil', 'Truncate', 'Round', 'Sqrt']


def obligations(ctx):
    obs = []
    ocs = (True, False) if ctx.tier == 'thorough' else (True,)
    for oc in ocs:
        a = Leaf('f64', 'a')
        obs.append(EvalArm('C05', 'f64', 'Number', a, lambda v: sem.f64_ref('Number', v), oc=oc))
        for k in BIN:
            a = Leaf('f64', 'a'); b = Leaf('f64', 'b')
            obs.append(EvalArm('C05', 'f64', k, (k, a, b), (lambda v, k=k: sem.f64_ref(k, v)), oc=oc))
        for k in UN:
            a = Leaf('f64', 'a')
            obs.append(EvalArm('C05', 'f64', k, (k, a), (lambda v, k=k: sem.f64_ref(k, v)), oc=oc))
        # non-finite values flow through a parent node as values (never Err)
        pairs = [('Add', 'Divide'), ('Multiply', 'Subtract'), ('Negative', 'Divide'), ('Sqrt', 'Subtract')]
        if ctx.tier == 'thorough': pairs += [(o, i) for o in ('Add', 'Subtract', 'Multiply', 'Divide', 'Modulo', 'Pow') for i in ('Add', 'Multiply', 'Divide', 'Negative', 'Sqrt')]
        for outer, inner in dict.fromkeys(pairs):
            a = Leaf('f64', 'a'); b = Leaf('f64', 'b'); c = Leaf('f64', 'c')
            inner_un = inner in UN; outer_un = outer in UN
            child = (inner, a) if inner_un else (inner, a, b)
            shape = (outer, child) if outer_un else (outer, child, c)
            def ref(v, outer=outer, inner=inner, inner_un=inner_un, outer_un=outer_un):
                iv = v[:1] if inner_un else v[:2]
                mid = sem.f64_ref(inner, iv)[0][1][2]
                return sem.f64_ref(outer, [mid] if outer_un else [mid, v[-1]])
            obs.append(EvalArm('C05', 'f64', '%s(%s)' % (outer, inner), shape, ref, oc=oc, label='f64/%s(%s)/%s' % (outer, inner, 'dbg' if oc else 'rel')))
        # W: the same statement end to end (mod.rs, tokenizer, parser, evaluator from MIR) on templates with an arbitrary placeholder (any double,
        # incl. NaN, infinities and signed zeros) the tree the parser builds is evaluated node by node as written
        tag = 'dbg' if oc else 'rel'
        W = {'@+@': ('Add', 'p', 'p'), '@-@': ('Subtract', 'p', 'p'), '-(@-@)': ('Negative', ('Subtract', 'p', 'p')), '-@': ('Negative', 'p'), '-(-@)': ('Negative', ('Negative', 'p')), '-(@+@)': ('Negative', ('Add', 'p', 'p')),
             '-(@*@)': ('Negative', ('Multiply', 'p', 'p')), '@*@': ('Multiply', 'p', 'p'), '@/@': ('Divide', 'p', 'p'), '@%@': ('Modulo', 'p', 'p'), '@^@': ('Pow', 'p', 'p'), 'abs(-@)': ('Abs', ('Negative', 'p')), '-abs(@)': ('Negative', ('Abs', 'p')),
             '@-@-@': ('Subtract', ('Subtract', 'p', 'p'), 'p'), '@-(@-@)': ('Subtract', 'p', ('Subtract', 'p', 'p')), 'trunc(@)': ('Truncate', 'p'), 'floor(-@)': ('Floor', ('Negative', 'p')), 'ceil(@)': ('Ceil', 'p'), 'round(@)': ('Round', 'p'),
             'sqrt(@)': ('Sqrt', 'p'), '@+@*@': ('Add', 'p', ('Multiply', 'p', 'p')), '(@+@)*@': ('Multiply', ('Add', 'p', 'p'), 'p'), '@*@+@': ('Add', ('Multiply', 'p', 'p'), 'p'), '@/(@-@)': ('Divide', 'p', ('Subtract', 'p', 'p')),
             '-(@/@)': ('Negative', ('Divide', 'p', 'p')), '@*-@': ('Multiply', 'p', ('Negative', 'p'))}
        for text, shape in W.items():
            chars = [ord(ch) for ch in text]

            def ref(cs, ph, shape=shape):
                dv = None

                def ev(sh):
                    if sh == 'p': return ph
                    if sh == 'd': return dv
                    args = [ev(x) for x in sh[1:]]
                    return sem.f64_ref(sh[0], args)[0][1][2]
                top = [ev(x) for x in shape[1:]]
                return sem.f64_ref(shape[0], top)
            obs.append(PublicOb('C05', 'f64', chars, ref, 'f64/W/%s/%s' % (text, tag), oc=oc, limits={'steps': 8000, 'timeout_ms': 60000}))
    return obs


def run(ctx):
    results = run_obligations(ctx, obligations(ctx))
    bounds = dict(layer='E: eval_f64::ast::eval on one node and on two nested nodes, every leaf an arbitrary double (all 2^64 bit patterns, NaNs identified); W: eval_f64 end to end on 26 templates of one to three operators over an arbitrary placeholder',
                  configurations=['overflow-checks=on'] + (['overflow-checks=off'] if ctx.tier == 'thorough' else []))
    outside = ['that Rust `+ - * /` on f64 are the IEEE operations and `%`, powf are the C library fmod/pow is the language contract (trusted; every path is replayed natively)',
               'pi and e as nearest doubles are decided at the parser layer (C10/C04 token-stream checks)']
    return finish(ctx, results, bounds, 'symbolic execution of eval_f64::ast::eval from MIR; z3 FP theory (fmod/pow uninterpreted) decides that each node applies the IEEE operation of the same meaning to its operands in order, and that no arithmetic path returns Err', outside)
