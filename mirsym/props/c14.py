"""C14 `@` denotes exactly the caller's placeholder value."""
from ..harness import *
from ..player import *
from ..wlayer import *
from .c04 import BINOPS, SIGN


def same_as_placeholder(ev, ph):
    def pred(x):
        return leaf_equal(ev, x, ph)
    return pred


def obligations(ctx):
    from .c16 import ScanOb
    obs = [ScanOb(True)]      # premise: a call's result is a function of its two arguments (otherwise `@` may stem from an earlier call: histories are replayed)
    ocs = (True,) if ctx.tier == 'quick' else (True, False)
    for oc in ocs:
        tag = 'dbg' if oc else 'rel'
        for ev in lx.EVALS:
            # W: the public function hands the caller's value to the parser and back unchanged, for every placeholder value
            for s in ('@', '(@)', '+@', '((@))'):
                obs.append(PublicOb('C14', ev, [ord(c) for c in s], (lambda chars, ph, ev=ev: [(True, sem.OKP(same_as_placeholder(ev, ph), 'the placeholder'))]),
                                    '%s/eval/%s/%s' % (ev, s, tag), oc=oc))
            # P: `@` in every operand and argument position is a leaf holding exactly the placeholder; not part of implicit products
            OP = BINOPS + ['ExclamationMark']
            obs.append(ParserOb('C14', ev, None, oc=oc, positions=[['Ans', 'Num'], OP, ['Ans', 'Num'], OP, ['Ans', 'Num']], label='%s/ans/operands/%s' % (ev, tag)))
            obs.append(ParserOb('C14', ev, None, oc=oc, positions=[SIGN, ['Ans'], ['ExclamationMark', 'Caret', 'Superscript'], ['Ans', 'Num']], label='%s/ans/signed/%s' % (ev, tag)))
            obs.append(ParserOb('C14', ev, None, oc=oc, positions=[['ExplicitFunction'], ['LeftParen'], ['Ans'], ['Comma', 'RightParen'], ['Ans', 'RightParen'], ['RightParen', 'Comma']],
                                label='%s/ans/arguments/%s' % (ev, tag)))
            obs.append(ParserOb('C14', ev, None, oc=oc, positions=[['Ans', 'Num', 'RightParen'], ['Ans', 'LeftParen', 'Num', 'ExplicitFunction:Abs'], ['Ans', 'LeftParen', 'Num', 'RightParen'], ['RightParen', 'Ans', 'Num']],
                                label='%s/ans/juxtaposition/%s' % (ev, tag)))
    return obs


def run(ctx):
    results = run_obligations(ctx, obligations(ctx))
    bounds = dict(layer='W: eval_*("@"), ("(@)"), ("+@"), ("((@))") from the MIR of mod.rs, tokenizer, parser and evaluator with a fully symbolic placeholder of the evaluator\'s type (any double incl. NaN/inf/-0, any i64, any Integer/Float Number, any complex pair, an abstract Decimal); '
                        'P: template token streams with `@` in every operand / argument position and next to every juxtaposition trigger',
                  configurations=['overflow-checks=on'] + (['overflow-checks=off'] if ctx.tier == 'thorough' else []))
    outside = ['expressions longer than the templates: by compositionality (C20)', 'Decimal placeholders are abstract values: identity of the value (and scale) is shown, not a particular representation']
    return finish(ctx, results, bounds, 'symbolic execution of the public functions and of the parser: every `@` leaf of every accepted tree is the placeholder term itself (same bits / variant / decimal), and `@` never joins an implicit product', outside)
