"""C01 No input makes any evaluator panic or abort (debug and release MIR)."""
import z3
from ..harness import *
from ..tlayer import *
from ..player import *
from ..wlayer import *
from ..decimal import *
from ..reference import semantics as sem

ANYREF = lambda v: [(True, sem.ANY)]


def node_shapes(prog, ev):
    """every Node variant of the evaluator with leaves of arbitrary value: (kind, arity | 'vec' | 'leaf')"""
    key = 'eval_%s::ast::Node' % ev
    out = []
    for v in prog.enums[key]:
        fl = prog.enum_fields[key][v]
        if fl and all(t.startswith('Box<') for t in fl): out.append((v, len(fl)))
        elif len(fl) == 1 and 'Vec' in fl[0]: out.append((v, 'vec'))
        else: out.append((v, 'leaf'))
    return out


def leaf_sets(ev, n, intmode='int'):
    """operand variable tuples for an n-ary node (eval_number: every variant combination)"""
    import itertools
    if ev == 'number':
        return [[Leaf('number', 'x%d' % i, vs[i], 'bv') for i in range(n)] for vs in itertools.product(['Integer', 'Float'], repeat=n)]
    if ev == 'decimal': return [[DecLeaf('x%d' % i) for i in range(n)]]
    return [[Leaf(ev, 'x%d' % i, None, intmode) for i in range(n)]]


def e_obligations(ctx, prog, oc, tag):
    obs = []
    for ev in lx.EVALS:
        for kind, ar in node_shapes(prog, ev):
            if ar == 'leaf': continue
            arities = ([1, 2] if (ev == 'number' and ctx.tier == 'quick') else [1, 2, 3]) if ar == 'vec' else [ar]
            for n in arities:
                for leaves in leaf_sets(ev, n):
                    shape = (kind, list(leaves)) if ar == 'vec' else (kind,) + tuple(leaves)
                    lab = '%s/E/%s/%d%s/%s' % (ev, kind, n, ('[' + ''.join(l.variant[0] for l in leaves) + ']') if ev == 'number' else '', tag)
                    limits = {'steps': 3000, 'timeout_ms': 20000, 'branch_timeout_ms': 3000}
                    if kind in ('ILog', 'LambertW', 'Factorial'): limits['abstract_fdiv'] = True
                    assume = None
                    # value-dependent loops are C02's subject: here the operand of a looping construct is bounded so that exploration ends
                    if kind in ('Factorial',) and ev in ('i64', 'number') and leaves[0].variant != 'Float':
                        assume = leaves[0].var <= 25 if not is_bv(leaves[0].var) else leaves[0].var <= 25
                    if kind in ('Gcd', 'Lcm'):
                        b = 64 if n < 3 else (16 if kind == 'Gcd' else 6)
                        assume = z3.And([z3.And(l.var > -b, l.var < b) for l in leaves])
                    if kind == 'Pow' and ev == 'i64': assume = z3.Or(leaves[1].var <= 3, leaves[1].var > 64)
                    if kind == 'Pow' and ev == 'number' and leaves[0].variant == 'Integer' and leaves[1].variant == 'Integer':
                        leaves = [Leaf('number', 'x0', 'Integer', 'int'), Leaf('number', 'x1', 'Integer', 'int')]; shape = (kind,) + tuple(leaves)
                        assume = z3.Or(leaves[1].var <= 3, leaves[1].var > 64)
                    if ev == 'decimal':
                        limits = dict(limits, steps=400)      # the iteration count of w() is an abstract value here: cut long unrollings (they are C02's subject)
                        obs.append(DecimalArm('C01', kind, shape, ANYREF, oc=oc, label=lab, limits=limits))
                    else: obs.append(EvalArm('C01', ev, kind, shape, ANYREF, oc=oc, label=lab, limits=limits, assume=assume, replay_cap=8))
                    obs[-1].limit_is_violation = False
                    if kind in ('LambertW', 'ILog'): obs[-1].limits = dict(obs[-1].limits, steps=300, max_paths=10)
    return obs


def call_templates(ctx, ev, oc, tag):
    """eval_*("name(@)"), ("name(@,@)"), ("name(@,@,@)") for every function name of the vocabulary, with an arbitrary placeholder"""
    obs = []
    for w, f in sorted(lx.functions_of(ev).items()):
        ar = lx.ARITY[f]
        for n in ([ar] if ar else [1, 2, 3]):
            s = w + '(' + ','.join(['@'] * n) + ')'
            obs.append(PublicOb('C01', ev, [ord(c) for c in s], any_outcome, '%s/W/%s/%s' % (ev, s, tag), oc=oc, limits={'steps': 600 if ev == 'decimal' else 2500, 'timeout_ms': 20000, 'abstract_fdiv': True, 'branch_timeout_ms': 3000}, replay_cap=6))
            obs[-1].limit_is_violation = False
            if f in ('LambertW', 'ILog'): obs[-1].limits = dict(obs[-1].limits, steps=300, max_paths=10)
    for s in ['@!', '-@', '@^@', '@%@', '@/@', '@*@', '@+@', '@-@', '@<<@', '@>>@', '@&@', '@|@', '@°', '@rad', '@²', '⌊@⌋', '⌈@⌉', '@(@)', '(@)@']:
        obs.append(PublicOb('C01', ev, [ord(c) for c in s], any_outcome, '%s/W/%s/%s' % (ev, s, tag), oc=oc, limits={'steps': 2500, 'timeout_ms': 20000}, replay_cap=6))
        obs[-1].limit_is_violation = False
    return obs


def obligations(ctx):
    obs = []
    prog = ctx.prog(True)
    for oc in (True, False):
        tag = 'dbg' if oc else 'rel'
        obs += e_obligations(ctx, prog, oc, tag)
        for ev in lx.EVALS:
            # T: every string of 0..2 (thorough 3) characters; literals and superscript runs at the lengths where conversions change behaviour
            for k in range(0, 3 if ctx.tier == 'quick' else 4):
                obs.append(full_alphabet('C01', ev, k, oc, tag))
            for n in (18, 19, 20, 29, 30):
                obs.append(TokOb('C01', ev, [digit('d%d' % i) for i in range(n)] + [CharLeaf('t')], '%s/T/digits%d/%s' % (ev, n, tag), oc=oc))
                if ev != 'i64':
                    obs.append(TokOb('C01', ev, [digit('d%d' % i) for i in range(n)] + [ord('.')] + [digit('e%d' % i) for i in range(2)] + [CharLeaf('t')], '%s/T/digits%d.2/%s' % (ev, n, tag), oc=oc))
            obs += superscript_templates('C01', ev, oc, tag, lens=(1, 2, 3))
            for n in (19, 20, 30):     # long runs: two symbolic superscript digits in front of concrete ones (the conversion limits are in the leading digits)
                chars = [superdigit('s0'), superdigit('s1')] + [0x2079 if n < 30 else 0xB2] * (n - 2) + [CharLeaf('t')]
                obs.append(TokOb('C01', ev, chars, '%s/T/super%d/%s' % (ev, n, tag), oc=oc))
            for shape in ('1.2.3', '1..2', '.', '.5.5'):
                chars = [digit('d%d' % i) if c != '.' else ord('.') for i, c in enumerate(shape)] + [CharLeaf('t')]
                obs.append(TokOb('C01', ev, chars, '%s/T/%s/%s' % (ev, shape, tag), oc=oc))
            # P: every token stream of K <= 2 (thorough 3) tokens
            for K in range(0, 3 if ctx.tier == 'quick' else 4):
                obs.append(ParserOb('C01', ev, K, oc=oc, label='%s/P/K%d/%s' % (ev, K, tag)))
            # W: the public function on every string of 0..2 characters and on one call per function name with arbitrary arguments
            for k in range(0, 3):
                if k == 2 and ev == 'decimal' and ctx.tier == 'quick': continue      # 19 000 paths (abstract decimal failure cases): thorough tier
                obs.append(PublicOb('C01', ev, [CharLeaf('c%d' % i) for i in range(k)], any_outcome, '%s/W/any%d/%s' % (ev, k, tag), oc=oc, limits={'steps': 3000, 'timeout_ms': 20000}, replay_cap=300))
            obs += call_templates(ctx, ev, oc, tag)
    return obs


def run(ctx):
    results = run_obligations(ctx, obligations(ctx))
    bounds = dict(layers='E: every Node variant of all five evaluators with arbitrary operand values (aggregates with 1..3 arguments); T: every string of 0..2 (thorough 3) characters over Unicode, digit and superscript runs of 18..30 characters, malformed point patterns; '
                         'P: every token stream of 0..2 (thorough 3) tokens; W: the public functions on every string of 0..2 characters and on `name(@,..)` for every function name and every operator with an arbitrary placeholder',
                  configurations=['overflow-checks=on', 'overflow-checks=off'],
                  loops='operands of value-dependent loops (n!, gcd, lcm, integer pow) are bounded here; their termination for every value is C02')
    outside = ['abort by stack exhaustion (recursion depth is bounded by the input length; not modelled)', 'inputs longer than the templates / 256-character inputs: by the layering argument of DESIGN.md section 4',
               'eval_decimal: rust_decimal operations are abstract; a panicking form reached on some path is confirmed with a pool of boundary decimals, a panic whose witness is outside the pool would be reported inconclusive, not missed silently',
               'allocation failure']
    return finish(ctx, results, bounds, 'symbolic execution of all four layers from MIR built with and without overflow checks: no explored path may end in a panic (failed MIR assert, unwrap on None/Err, panicking library form, unreachable); every candidate is replayed natively in the matching profile', outside)
