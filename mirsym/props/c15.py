"""C15 The five evaluators agree on their common sub-language."""
import z3
from ..harness import *
from ..subst import *
from ..reference import semantics as sem
from ..player import ParserOb
from ..reference import lexer as lx

INT_KINDS = [('Add', 2), ('Subtract', 2), ('Multiply', 2), ('Modulo', 2), ('Divide', 2), ('Negative', 1), ('Abs', 1), ('Sign', 1), ('Min', 2), ('Max', 2), ('Factorial', 1), ('Pow', 2)]
F64_SHARED_1 = ['Negative', 'Abs', 'Sqrt', 'Sin', 'Cos', 'Tan', 'Sinh', 'Cosh', 'Tanh', 'Asin', 'Acos', 'Atan', 'Arsinh', 'Arcosh', 'Artanh', 'Ln', 'Lb', 'Exp', 'Exp2', 'Sign']
F64_SHARED_2 = ['Add', 'Subtract', 'Multiply', 'Divide', 'Modulo', 'Pow', 'Root', 'Log', 'Atan2']


def numeric_agree(kind):
    """eval_number on Float operands has exactly eval_f64's value (operands / results finite, below 2^53, no negative zero)"""
    def ref(vals):
        fs = [sem.num_to_f64(v) for v in vals]
        big = fp_const(9007199254740992.0)
        okv = lambda x: z3.And(z3.Not(z3.fpIsNaN(x)), z3.Not(z3.fpIsInf(x)), z3.fpLT(z3.fpAbs(x), big), z3.Not(z3.And(z3.fpIsZero(x), z3.fpIsNegative(x))))
        out = []
        for cond, oc in sem.f64_ref(kind, fs):
            if oc[0] != 'ok' or oc[2] is None or not is_sym(oc[2]) and not isinstance(oc[2], z3.ExprRef):
                out.append((cond, sem.ANY)); continue
            r = oc[2]
            if not z3.is_fp(r): out.append((cond, sem.ANY)); continue
            restr = z3.And([okv(f) for f in fs] + [okv(r)])
            pred = sem.lift(lambda x, r=r: z3.fpEQ(sem.num_to_f64(x), r), lambda v, r=r: z3.fpEQ(v, r))
            out.append((b_and(cond, restr), sem.OKP(pred, ('numeric', r))))
            out.append((b_and(cond, z3.Not(restr)), sem.ANY))
        return out
    return ref


def obligations(ctx):
    from .c18 import premise_number_from
    obs = [premise_number_from('C15')]      # first, so that it runs alongside everything else
    ocs = (True,) if ctx.tier == 'quick' else (True, False)
    for oc in ocs:
        tag = 'dbg' if oc else 'rel'
        for k, n in INT_KINDS:
            af = None
            if k == 'Pow': af = lambda vs: z3.And(vs[1] >= 0, vs[1] <= (8 if ctx.tier == 'quick' else 64))
            if k == 'Factorial': af = lambda vs: z3.And(vs[0] >= 0, vs[0] <= 22)
            if k == 'Divide': af = lambda vs: z3.And(vs[1] != 0, trem(vs[0], vs[1]) == 0)        # "exact /"
            if k == 'Modulo': af = lambda vs: vs[1] != 0
            obs.append(AgreeOb('C15', k, oc=oc, assume_fn=af, n=n))
        # eval_number vs eval_f64 on the shared f64 grammar: the Float arms of eval_number against the f64 reference semantics
        # (the f64 evaluator itself is tied to the same reference by C05/C10)
        for k in F64_SHARED_1:
            a = Leaf('number', 'a', 'Float', 'bv')
            obs.append(EvalArm('C15', 'number', k, (k, a), numeric_agree(k), oc=oc, label='number-vs-f64/%s[F]/%s' % (k, tag), limits={'timeout_ms': 60000}))
        for k in F64_SHARED_2:
            for va, vb in (('Float', 'Float'), ('Integer', 'Float'), ('Float', 'Integer')):
                a = Leaf('number', 'a', va, 'bv'); b = Leaf('number', 'b', vb, 'bv')
                obs.append(EvalArm('C15', 'number', k, (k, a, b), numeric_agree(k), oc=oc, label='number-vs-f64/%s[%s%s]/%s' % (k, va[0], vb[0], tag), limits={'timeout_ms': 60000}))
        # the five parsers group the operators they share in the same way (each against the one reference grammar, hence pairwise the same tree for the same tokens)
        SH = ['Add', 'Subtract', 'Multiply', 'Divide', 'Modulo', 'Caret']
        for ev in lx.EVALS:
            obs.append(ParserOb('C15', ev, None, oc=oc, positions=[['Num'], SH, ['Num'], SH, ['Num']], label='%s/shared-grammar/triple/%s' % (ev, tag)))
            obs.append(ParserOb('C15', ev, None, oc=oc, positions=[['Subtract'], ['Num'], SH + ['Superscript'], ['Subtract', 'Num'], ['Num', 'Superscript', 'ExclamationMark']], label='%s/shared-grammar/signs/%s' % (ev, tag)))
            obs.append(ParserOb('C15', ev, None, oc=oc, positions=[['ExplicitFunction:Pow', 'ExplicitFunction:Sqrt', 'ExplicitFunction:Abs'], ['LeftParen'], ['Num'], SH + ['Comma'], ['Num'], ['RightParen'], SH, ['Num']],
                                label='%s/shared-grammar/calls/%s' % (ev, tag)))
    return obs


def run(ctx):
    results = run_obligations(ctx, obligations(ctx))
    bounds = dict(layer='E, pairwise: (1) the same integer node in eval_i64 and eval_number on the same arbitrary i64 operands: Ok(v) implies Integer(v); (2) every node of the shared f64 grammar in eval_number with a Float operand against the f64 reference semantics that C05/C10 tie eval_f64 to, under the restriction of the statement (finite, below 2^53, no negative zero); (3) P: the five parsers build the reference tree on templates over the operators they share (+ - * / % ^, signs, superscripts, pow/sqrt/abs calls)',
                  pow='exponent 0..8 (thorough 0..64)', factorial='n <= 22', configurations=['overflow-checks=on'] + (['overflow-checks=off'] if ctx.tier == 'thorough' else []))
    outside = ['the 1e-9 agreements of eval_complex and eval_decimal with eval_f64 (numeric tolerance over transcendental / decimal arithmetic: not decidable here)',
               'floor / ceil / round / trunc of eval_number vs eval_f64 (C09 shows they are the correctly rounded integers; equating Integer(n) with the double needs a float/bit-vector round trip z3 does not finish)', 'eval_number vs eval_f64 on Integer-Integer operands (exact integer result vs rounded double sum: needs mixed bit-vector / floating-point reasoning that z3 does not finish); multi-node expressions follow by compositionality (C20) and the parser checks (C04)']
    return finish(ctx, results, bounds, 'two explorations of the real evaluators over the same symbolic operands, related by z3 for every feasible pair of paths; the eval_number/eval_f64 agreement goes through the shared reference semantics', outside)
