"""C08 eval_complex is complex-field arithmetic with i*i = -1."""
import z3
from ..harness import *
from ..tlayer import *
from ..wlayer import *
from ..summaries import cx_uf, cx_mul, cx_div, fadd, fsub, fmul, fdiv, uf
from ..reference import semantics as sem

UN = {'Sin': 'sin', 'Cos': 'cos', 'Tan': 'tan', 'Sinh': 'sinh', 'Cosh': 'cosh', 'Tanh': 'tanh', 'Asin': 'asin', 'Acos': 'acos', 'Atan': 'atan',
      'Arsinh': 'asinh', 'Arcosh': 'acosh', 'Artanh': 'atanh', 'Sqrt': 'sqrt', 'Ln': 'ln', 'Exp': 'exp', 'Exp2': 'exp2'}


def same_cx(x, r): return z3.And(x[1] == r[1], x[2] == r[2])
def OKC(r): return sem.OKP(lambda x: same_cx(x, r), str(r)[:60])


def cx_ref(kind, v):
    a = v[0]; b = v[1] if len(v) > 1 else None
    zero = fp_const(0.0)
    if kind == 'Number': return [(True, OKC(a))]
    if kind == 'Add': return [(True, OKC(('cplx', fadd(a[1], b[1]), fadd(a[2], b[2]))))]
    if kind == 'Subtract': return [(True, OKC(('cplx', fsub(a[1], b[1]), fsub(a[2], b[2]))))]
    if kind == 'Negative': return [(True, OKC(('cplx', z3.fpNeg(a[1]), z3.fpNeg(a[2]))))]
    if kind == 'Multiply':     # textbook: (ac - bd) + (ad + bc) i
        return [(True, OKC(('cplx', fsub(fmul(a[1], b[1]), fmul(a[2], b[2])), fadd(fmul(a[1], b[2]), fmul(a[2], b[1])))))]
    if kind == 'Divide':       # (a + bi)/(c + di) = ((ac + bd) + (bc - ad) i) / (c^2 + d^2)
        return [(True, OKC(cx_div(a, b)))]
    if kind == 'Abs': return [(True, OKC(('cplx', uf('cx_norm', F64, F64, F64)(a[1], a[2]), zero)))]
    if kind in UN: return [(True, OKC(cx_uf(UN[kind], a[1], a[2])))]
    if kind == 'Lb': return [(True, OKC(cx_uf('log', a[1], a[2], fp_const(2.0))))]
    if kind == 'Pow': return [(True, OKC(cx_uf('powc', a[1], a[2], b[1], b[2])))]
    if kind == 'Root':         # root(n, x) = x^(1/n)
        inv = cx_uf('rdiv', fp_const(1.0), a[1], a[2])
        return [(True, OKC(cx_uf('powc', b[1], b[2], inv[1], inv[2])))]
    if kind == 'Log':          # log(x, b) = ln x / ln b
        return [(True, OKC(cx_div(cx_uf('ln', a[1], a[2]), cx_uf('ln', b[1], b[2]))))]
    raise KeyError(kind)


def obligations(ctx):
    obs = []
    ocs = (True, False) if ctx.tier == 'thorough' else (True,)
    for oc in ocs:
        tag = 'dbg' if oc else 'rel'
        for k in ['Number', 'Add', 'Subtract', 'Multiply', 'Divide', 'Negative', 'Abs', 'Lb', 'Pow', 'Root', 'Log'] + list(UN):
            n = 2 if k in ('Add', 'Subtract', 'Multiply', 'Divide', 'Pow', 'Root', 'Log') else 1
            leaves = [Leaf('complex', 'x%d' % i) for i in range(n)]
            shape = leaves[0] if k == 'Number' else (k,) + tuple(leaves)
            obs.append(EvalArm('C08', 'complex', k, shape, (lambda v, k=k: cx_ref(k, v)), oc=oc, label='complex/%s/%s' % (k, tag)))
        # T: `i`, digits followed by `i`, `pi` still the constant, letters after `i`
        for n in (1, 2, 5):
            for dpos in (None, 0, 1, n):
                ds = [digit('d%d' % i) for i in range(n)]
                chars = (ds if dpos is None else ds[:dpos] + [ord('.')] + ds[dpos:]) + [CharLeaf('t'), CharLeaf('u')]
                obs.append(TokOb('C08', 'complex', chars, 'complex/lit/%d@%s+any2/%s' % (n, dpos, tag), oc=oc))
        for s in ('i', 'pi', 'p'):
            obs.append(TokOb('C08', 'complex', [ord(c) for c in s] + [CharLeaf('t'), CharLeaf('u')], 'complex/tok/%s+any2/%s' % (s, tag), oc=oc))
        # W: i*i is exactly -1 + 0i; (a i)*(b i) and i/i through the public function
        def iref(re_, im_):
            return lambda chars, ph: [(True, OKC(('cplx', fp_const(re_), fp_const(im_))))]
        for s, (re_, im_) in {'i*i': (-1.0, 0.0), 'i': (0.0, 1.0), '2i*3i': (-6.0, 0.0), '-i': (-0.0, -1.0), '1+i': (1.0, 1.0), '(1+i)*(1-i)': (2.0, 0.0)}.items():
            obs.append(PublicOb('C08', 'complex', [ord(c) for c in s], iref(re_, im_), 'complex/eval/%s/%s' % (s, tag), oc=oc))
    return obs


def run(ctx):
    results = run_obligations(ctx, obligations(ctx))
    bounds = dict(layer='E: every node of eval_complex on arbitrary complex operands (pairs of arbitrary doubles); T: the complex tokenizer on literal / `i` / `pi` templates followed by two arbitrary characters; W: eval_complex on i*i, 2i*3i, (1+i)*(1-i), ...',
                  configurations=['overflow-checks=on'] + (['overflow-checks=off'] if ctx.tier == 'thorough' else []))
    outside = ['the 1e-12 / 1e-9 accuracy of num_complex\'s norm, powc and transcendental methods and the agreement with eval_f64 within 1e-9 are floating-point error analysis of transcendental code: not decidable with the SMT theories available (methods are uninterpreted functions; what is decided is which method is applied to which operands)',
               '* and / of num_complex 0.4 are encoded by their source formulas (textbook product, quotient through the squared norm)']
    return finish(ctx, results, bounds, 'symbolic execution of eval_complex: + - and unary minus equal the component formulas bit for bit, * equals the textbook product, every function maps to the num_complex method of the same meaning on its operands in order; the imaginary unit and imaginary literals are lexed as (0, v); i*i evaluates to exactly (-1, 0)', outside)
