"""C09 eval_number keeps integers exact and falls back to doubles only when it must."""
import z3
from ..harness import *
from ..reference import semantics as sem

BIN = ['Add', 'Subtract', 'Multiply', 'Divide', 'Modulo', 'Pow']
UN = ['Negative', 'Abs', 'Sign', 'Floor', 'Ceil', 'Round', 'Truncate', 'Factorial']
VAR = ['Integer', 'Float']


def obligations(ctx):
    from .c18 import premise_number_from
    obs = [premise_number_from('C09')]      # first, so that it runs alongside everything else
    from .c19 import number_literal_obligations
    obs += number_literal_obligations('C09')
    ocs = (True, False)
    for oc in ocs:
        for k in BIN:
            for va in VAR:
                for vb in VAR:
                    # integers next to floating point are bit-vectors (fast in z3's FP solver); Integer^Integer needs exact powers -> Int
                    mode = 'int' if (k == 'Pow' and va == 'Integer' and vb == 'Integer') else 'bv'
                    a = Leaf('number', 'a', va, mode); b = Leaf('number', 'b', vb, mode)
                    assume = None; limits = {'timeout_ms': 60000}
                    if k == 'Pow' and mode == 'int' and ctx.tier == 'quick': assume = z3.Or(b.var <= 6, b.var > 64)
                    obs.append(EvalArm('C09', 'number', k, (k, a, b), (lambda v, k=k: sem.number_ref(k, v)), oc=oc, assume=assume, limits=limits,
                                       label='number/%s[%s,%s]/%s' % (k, va[0], vb[0], 'dbg' if oc else 'rel')))
        for k in UN:
            for va in VAR:
                mode = 'int' if k == 'Factorial' else 'bv'
                a = Leaf('number', 'a', va, mode)
                assume = None
                if k == 'Factorial' and va == 'Integer': assume = z3.And(a.var <= 21)
                if k == 'Factorial' and va == 'Float': continue      # Gamma: numeric accuracy, not decided here (C10 note)
                obs.append(EvalArm('C09', 'number', k, (k, a), (lambda v, k=k: sem.number_ref(k, v)), oc=oc, assume=assume, limits={'timeout_ms': 120000},
                                   label='number/%s[%s]/%s' % (k, va[0], 'dbg' if oc else 'rel')))
    return obs


def run(ctx):
    results = run_obligations(ctx, obligations(ctx))
    bounds = dict(layer='E: eval_number::ast::eval on one node; each operand an arbitrary Integer(i64) or Float(f64), every variant combination',
                  configurations=['overflow-checks=on', 'overflow-checks=off'],
                  pow='Integer^Integer: exponent split exactly for 0..64 (quick: 0..6) and beyond; other combinations: powf as an uninterpreted function',
                  factorial='Integer n <= 21')
    outside = ['n! of a Float operand (Gamma accuracy) is not decided', 'Integer exponent outside 0..4294967295: any non-panicking outcome accepted']
    return finish(ctx, results, bounds, 'symbolic execution of eval_number::ast::eval from MIR per (node, operand variants); z3 (bit-vectors + FP, Int for exact powers) decides exact-integer results, float fallback and rounding', outside)
