"""C13 Equivalent spellings evaluate identically."""
import z3
from ..harness import *
from ..tlayer import *
from ..player import *
from ..meta import *
from .c04 import BINOPS

ALIASES = ['pi', 'sgn', 'sign', 'signum', 'med', 'median', 'trunc', 'truncate', 'w', 'lambert_w', 'asinh', 'arsinh', 'acosh', 'arcosh', 'atanh', 'artanh']
TEMPLATES = {
    'f64': ['D+D', 'D.D*D', 'sin(D)', 'pi', 'Drad', 'max(D,D)', 'D²', '⌊D.D⌋', 'D!', '@-D'],
    'i64': ['D+D', 'D<<D', 'gcd(D,D)', 'D²', 'D!', '@%D'],
    'decimal': ['D+D', 'D.D*D', 'floor(D.D)', 'pi', 'D²'],
    'complex': ['D+Di', 'sin(D)', 'pi', 'Drad', 'D²'],
    'number': ['D+D', 'D.D*D', 'round(D.D)', 'Drad', 'max(D,D)', 'D²'],
}


def chars_of(t, tag):
    out = []
    for i, c in enumerate(t):
        out.append(digit('%s_d%d' % (tag, i)) if c == 'D' else ord(c))
    return out


def obligations(ctx):
    obs = []
    ocs = (True,) if ctx.tier == 'quick' else (True, False)
    for oc in ocs:
        tag = 'dbg' if oc else 'rel'
        for ev in lx.EVALS:
            # (a) whitespace anywhere (one character out of the 25 White_Space code points at every position, also inside names and numbers)
            for t in (TEMPLATES[ev] if ctx.tier == 'thorough' else TEMPLATES[ev][:6]):
                base = chars_of(t, 'h')
                positions = range(len(t) + 1) if ctx.tier == 'thorough' else sorted(set([0, 1, len(t) // 2, len(t)]))
                for j in positions:
                    b = base[:j] + [ws_char('ws')] + base[j:]
                    obs.append(MetaOb('C13', ev, base, b, '%s/ws/%s@%d/%s' % (ev, t, j, tag), oc=oc))
            # (b) aliases give the token of their synonym (T layer, same function / constant token)
            obs += keyword_templates('C13', ev, oc, tag, words=ALIASES, nearmiss=False)
            obs.append(TokOb('C13', ev, [ord('π'), CharLeaf('t')], '%s/tok/π+any/%s' % (ev, tag), oc=oc))
            # (c) bracket notations, mod/pow as functions, superscripts, prefix +, redundant brackets: same tree as the named form (P layer vs reference)
            OP = BINOPS
            N = ['Num']
            spell = {
                'floor-call': [['ExplicitFunction:Floor'], ['LeftParen'], N, OP, N, ['RightParen']], 'floor-bracket': [['LeftFloor'], N, OP, N, ['RightFloor']],
                'ceil-call': [['ExplicitFunction:Ceil'], ['LeftParen'], N, OP, N, ['RightParen']], 'ceil-bracket': [['LeftCeiling'], N, OP, N, ['RightCeiling']],
                'mod-call': [['ExplicitFunction:Mod'], ['LeftParen'], N, ['Comma'], N, ['RightParen']], 'mod-op': [['LeftParen'], ['LeftParen'], N, ['RightParen'], ['Modulo'], ['LeftParen'], N, ['RightParen'], ['RightParen']],
                'pow-call': [['ExplicitFunction:Pow'], ['LeftParen'], N, ['Comma'], N, ['RightParen']], 'pow-op': [['LeftParen'], ['LeftParen'], N, ['RightParen'], ['Caret'], ['LeftParen'], N, ['RightParen'], ['RightParen']],
                'superscript': [N, OP, N, ['Superscript'], OP + ['DegToRad', 'RadToDeg', 'RightParen', 'Comma'], N], 'caret-literal': [N, OP, N, ['Caret'], N, OP + ['DegToRad', 'RadToDeg'], N],
                'prefix-plus': [['Add'], N, OP, ['Add'], N], 'prefix-plus-right-operand': [N, OP, ['Add'], N, OP + ['ExclamationMark'], N], 'prefix-plus-then-superscript': [N, OP, ['Add'], N, ['Superscript'], OP, N],
                'prefix-plus-under-minus': [['Subtract'], ['Add'], N, OP, N], 'prefix-plus-under-minus-superscript': [['Subtract'], ['Add'], N, ['Superscript', 'ExclamationMark']], 'redundant-brackets': [['LeftParen'], ['LeftParen'], N, OP, N, ['RightParen'], ['RightParen'], OP, ['LeftParen'], N, ['RightParen']],
            }
            for name, pos in spell.items():
                obs.append(ParserOb('C13', ev, None, oc=oc, positions=pos, label='%s/spelling/%s/%s' % (ev, name, tag)))
    return obs


def run(ctx):
    results = run_obligations(ctx, obligations(ctx))
    bounds = dict(layers='W (metamorphic): the public functions on templates with symbolic digits, with and without one character drawn from the 25 White_Space code points inserted at a position (quick: 4 positions per template, thorough: every position), both runs compared path pair by path pair; '
                         'T: every alias followed by `(`+any / two arbitrary characters / end of input gives the token of its synonym; P: each alternative notation and its named form build the tree of the reference grammar',
                  configurations=['overflow-checks=on'] + (['overflow-checks=off'] if ctx.tier == 'thorough' else []))
    outside = ['several whitespace characters at once and whitespace in inputs longer than the templates: by the structure of the stripping step (one pass of split_whitespace before anything else), shown for single insertions',
               'malformed inputs beyond the templates']
    return finish(ctx, results, bounds, 'symbolic execution of both spellings from MIR; z3 decides for every feasible pair of paths that the outcomes coincide (same value bit for bit, or Err in both); aliases and notations are decided at the token / tree level against the reference', outside)
