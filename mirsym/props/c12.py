"""C12 Juxtaposition means multiplication and binds tighter than explicit operators."""
from ..harness import *
from ..player import *
from .c04 import BINOPS, SIGN

RFIRST = ['LeftParen', 'LeftFloor', 'LeftCeiling', 'ExplicitFunction:Abs', 'ExplicitFunction:Sqrt', 'Num', 'Pi', 'E', 'Ans', 'Superscript', 'DegToRad', 'RadToDeg']
X = ['Num', 'LeftParen', 'RightParen', 'RightFloor', 'RightCeiling', 'Caret', 'Superscript', 'ExclamationMark', 'Multiply']


def lefts():
    return {'num': [['Num']], 'group': [['LeftParen'], ['Num'], ['RightParen']], 'floor': [['LeftFloor'], ['Num'], ['RightFloor']],
            'call': [['ExplicitFunction:Abs', 'ExplicitFunction:Sqrt'], ['LeftParen'], ['Num'], ['RightParen']], 'fact': [['Num'], ['ExclamationMark']],
            'call0': [['ExplicitFunction:Avg'], ['LeftParen'], ['RightParen']], 'call2': [['ExplicitFunction:Max', 'ExplicitFunction:Pow'], ['LeftParen'], ['Num'], ['Comma'], ['Num'], ['RightParen']]}


def obligations(ctx):
    obs = []
    ocs = (True,) if ctx.tier == 'quick' else (True, False)
    tails = (0, 1, 2, 3) if ctx.tier == 'quick' else (0, 1, 2, 3, 4)
    prefixes = {'none': [], 'binop': [['Num'], BINOPS], 'sign': [SIGN], 'pow': [['Num'], ['Caret']], 'arg': [['ExplicitFunction:Abs', 'ExplicitFunction:Max', 'ExplicitFunction:Sqrt'], ['LeftParen']]}
    for oc in ocs:
        tag = 'dbg' if oc else 'rel'
        for ev in lx.EVALS:
            for pn, pre in prefixes.items():
                for ln, left in lefts().items():
                    for m in tails:
                        if pn == 'arg' and m == 0: continue
                        if ln in ('call0', 'call2') and (m > 2 or pn not in ('none', 'binop')): continue
                        pos = pre + left + [RFIRST] + [X] * m
                        obs.append(ParserOb('C12', ev, None, oc=oc, positions=pos, label='%s/juxt/%s-%s-tail%d/%s' % (ev, pn, ln, m, tag)))
    return obs


def run(ctx):
    results = run_obligations(ctx, obligations(ctx))
    bounds = dict(layer='P: the five real parsers over template token streams  <context> L R-start t1..tm : L in {number, ( ) group, floor group, call (also `avg()` and two-argument calls, shorter tails), factorial}, R-start over every token that may or may not start a product '
                        '(brackets, function names, number, pi, e, @, superscript, deg, rad), m = 0..3 (thorough 4) further tokens from {number, brackets, ^, superscript, !, *}; contexts: none, after `N op` for every binary operator, after a prefix sign, after `N ^`, inside an argument list',
                  configurations=['overflow-checks=on'] + (['overflow-checks=off'] if ctx.tier == 'thorough' else []))
    outside = ['longer right factors / deeper nesting than the templates', 'three juxtaposed factors A B C are grouped A*(B*C): the statement fixes A*(R) with R = B and its suffixes; this reading is shared by the reference']
    return finish(ctx, results, bounds, 'symbolic execution of the real parser over juxtaposition templates; accepted sets and trees are compared with the reference grammar in which a product A*(R) is built exactly after the trigger tokens of C12 and R is parsed above the multiplicative level', outside)
