"""C07 eval_decimal arithmetic is exact in base 10."""
import z3
from ..harness import *
from ..tlayer import *
from ..decimal import *
from ..summaries import dec_op, dec_fails
from ..reference import semantics as sem

OPS = {'Add': 'add', 'Subtract': 'sub', 'Multiply': 'mul', 'Divide': 'div', 'Modulo': 'rem'}


def dec_ref(kind, vals):
    """the node returns the rust_decimal operation of the same meaning on its operands in order, and Err exactly when that operation is
    not representable / not defined (its failure predicate) - never a panic"""
    if kind in OPS:
        a, b = vals; op = OPS[kind]
        f = dec_fails(op, a, b); r = dec_op(op, a, b)
        return [(z3.Not(f), sem.OKP(lambda x: x[1] == r[1], 'dec_%s(a, b)' % op)), (f, sem.ERR)]
    if kind == 'Negative':
        r = dec_op('neg', vals[0]); return [(True, sem.OKP(lambda x: x[1] == r[1], 'dec_neg(a)'))]
    if kind == 'Number':
        return [(True, sem.OKP(lambda x: x[1] == vals[0][1], 'a'))]
    raise KeyError(kind)


def digit(name): return CharLeaf(name, lambda v: z3.And(v >= 48, v <= 57), 'digit')


def obligations(ctx):
    obs = []
    for oc in (True, False):
        tag = 'dbg' if oc else 'rel'
        for k in list(OPS) + ['Negative']:
            leaves = [DecLeaf('a'), DecLeaf('b')] if k in OPS else [DecLeaf('a')]
            ob = DecimalArm('C07', k, (k,) + tuple(leaves), (lambda v, k=k: dec_ref(k, v)), oc=oc, label='decimal/%s/%s' % (k, tag)); ob.differential = True
            obs.append(ob)
        # nested: an undefined inner operation makes the whole expression Err
        for outer in ('Add', 'Multiply'):
            for inner in ('Divide', 'Add'):
                a, b, c = DecLeaf('a'), DecLeaf('b'), DecLeaf('c')
                def ref(v, outer=outer, inner=inner):
                    out = []
                    for cond, oc_ in dec_ref(inner, v[:2]):
                        if oc_[0] != 'ok': out.append((cond, oc_)); continue
                        mid = dec_op(OPS[inner], v[0], v[1])
                        for c2, o2 in dec_ref(outer, [mid, v[2]]): out.append((b_and(cond, c2), o2))
                    return out
                ob = DecimalArm('C07', '%s(%s)' % (outer, inner), (outer, (inner, a, b), c), ref, oc=oc, label='decimal/%s(%s)/%s' % (outer, inner, tag)); ob.differential = True
                obs.append(ob)
        # the decimal parser groups the arithmetic of this property as the reference grammar does (a*b%c, a+b%c, -a*b, ...)
        from ..player import ParserOb
        AR = ['Add', 'Subtract', 'Multiply', 'Divide', 'Modulo']
        obs.append(ParserOb('C07', 'decimal', None, oc=oc, positions=[['Num'], AR, ['Num'], AR, ['Num']], label='decimal/grammar/triple/%s' % tag))
        obs.append(ParserOb('C07', 'decimal', None, oc=oc, positions=[['Subtract', 'Num'], ['Num', 'Subtract'] + AR, ['Num', 'Subtract'], AR, ['Num']], label='decimal/grammar/signed/%s' % tag))
        # literals reach Decimal::from_str as text of exactly their value and scale (T layer)
        lens = [1, 2, 5, 17, 18, 19, 20, 28] if ctx.tier == 'quick' else list(range(1, 30))
        for n in lens:
            for dpos in [None] + sorted(set([0, 1, n // 2, n])):
                ds = [digit('d%d' % i) for i in range(n)]
                chars = (ds if dpos is None else ds[:dpos] + [ord('.')] + ds[dpos:]) + [CharLeaf('t')]
                obs.append(TokOb('C07', 'decimal', chars, 'decimal/lit/%d@%s/%s' % (n, dpos, tag), oc=oc))
    return obs


def run(ctx):
    results = run_obligations(ctx, obligations(ctx))
    bounds = dict(layer='E: eval_decimal::ast::eval on + - * / % and unary minus (one node and two nested nodes) with abstract Decimal operands; T: the decimal tokenizer on literals of 1..28 symbolic digits with every point position',
                  configurations=['overflow-checks=on', 'overflow-checks=off'])
    outside = ['exactness of rust_decimal\'s own + - * (and the 1e-27 accuracy of its /) is the dependency\'s 96-bit arithmetic: operations are uninterpreted functions here, what is decided is which operation is applied to which operands in which order, that literals arrive with exactly their value and scale, and that every failing operation yields Err instead of a panic',
               'literals with more than 28 significant digits']
    return finish(ctx, results, bounds, 'symbolic execution of the arithmetic arms of eval_decimal over abstract decimals: Ok(v) iff the checked rust_decimal operation of the same meaning succeeds, with v that operation on the operands in order; literal text is shown to carry the exact rational value and scale', outside)
