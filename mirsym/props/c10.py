"""C10 Every documented function, alias and constant computes its mathematical meaning."""
import z3
from ..harness import *
from ..tlayer import *
from ..player import call_templates
from ..reference import semantics as sem

F64_FUNCS = ['Sin', 'Cos', 'Tan', 'Sinh', 'Cosh', 'Tanh', 'Asin', 'Acos', 'Atan', 'Arsinh', 'Arcosh', 'Artanh', 'Ln', 'Lb', 'Exp', 'Exp2',
             'Abs', 'Floor', 'Ceil', 'Round', 'Truncate', 'Sqrt', 'Sign', 'Factorial']
F64_FUNCS2 = ['Pow', 'Root', 'Log', 'Atan2', 'Modulo']


DEC_UNARY = {'Abs': 'abs', 'Floor': 'floor', 'Ceil': 'ceil', 'Round': 'round', 'Truncate': 'trunc', 'Sign': 'signum'}
DEC_FUNCS1 = list(DEC_UNARY) + ['Ln', 'Lb', 'Exp', 'Exp2', 'Sqrt']
DEC_FUNCS2 = ['Pow', 'Log', 'Root']


def dec_fn_ref(kind, v):
    """eval_decimal function nodes: the rust_decimal operation(s) of that name on the operands in order; Err exactly when one of them is undefined"""
    from ..summaries import dec_op, dec_fails, dec_const
    TWO, ONE = dec_const('2'), dec_const('1')
    if kind in DEC_UNARY:
        r = dec_op(DEC_UNARY[kind], v[0])
        return [(True, sem.OKP(lambda x: x[1] == r[1], 'dec_%s(a)' % DEC_UNARY[kind]))]
    fails = []

    def op(name, *args):
        f = dec_fails(name, *args)
        if f is not False: fails.append(f)
        return dec_op(name, *args)
    if kind == 'Ln': r = op('ln', v[0])
    elif kind == 'Exp': r = op('exp', v[0])
    elif kind == 'Sqrt': r = op('sqrt', v[0])
    elif kind == 'Exp2': r = op('powd', TWO, v[0])
    elif kind == 'Lb': r = op('div', op('ln', v[0]), dec_op('ln', TWO))
    elif kind == 'Pow': r = op('powd', v[0], v[1])
    elif kind == 'Log': r = op('div', op('ln', v[0]), op('ln', v[1]))
    elif kind == 'Root': r = op('powd', v[1], op('div', ONE, v[0]))
    else: raise KeyError(kind)
    bad = z3.Or(fails) if fails else False
    if bad is False: return [(True, sem.OKP(lambda x: x[1] == r[1], kind))]
    return [(z3.Not(bad), sem.OKP(lambda x: x[1] == r[1], 'rust_decimal ' + kind)), (bad, sem.ERR)]


def obligations(ctx):
    from .c18 import premise_number_from
    obs = [premise_number_from('C10')]      # first, so that it runs alongside everything else
    ocs = (True, False) if ctx.tier == 'thorough' else (True,)
    for oc in ocs:
        tag = 'dbg' if oc else 'rel'
        # T: every name / alias / constant of the README, in every evaluator (foreign names must give no token)
        for ev in lx.EVALS:
            obs += keyword_templates('C10', ev, oc, tag, nearmiss=(ctx.tier == 'thorough'))
            # P: each function token followed by 0..3 arguments builds the node of that function with the arguments in order (fixed arities enforced)
            obs += call_templates('C10', ev, oc, tag)
        # E: each function node computes the function of that name on its arguments in order
        for k in F64_FUNCS:
            # n! of integers is exact: operand = an integer-valued double 0..22 (larger n: the product loop is C02's subject; non-integers: Gamma accuracy, undecided)
            a = IntF64Leaf('f64', 'a', 0, 22) if k == 'Factorial' else Leaf('f64', 'a')
            obs.append(EvalArm('C10', 'f64', k, (k, a), (lambda v, k=k: sem.f64_ref(k, v)), oc=oc, limits={'timeout_ms': 60000}))
        for k in F64_FUNCS2:
            a = Leaf('f64', 'a'); b = Leaf('f64', 'b')
            obs.append(EvalArm('C10', 'f64', k, (k, a, b), (lambda v, k=k: sem.f64_ref(k, v)), oc=oc))
        for k in [x for x in F64_FUNCS if x != 'Factorial'] + ['Factorial']:
            for va in ('Integer', 'Float'):
                if k == 'Factorial' and va == 'Float': continue
                a = Leaf('number', 'a', va, 'int' if k == 'Factorial' else 'bv')
                assume = (a.var <= 21) if k == 'Factorial' else None
                obs.append(EvalArm('C10', 'number', k, (k, a), (lambda v, k=k: sem.number_ref(k, v)), oc=oc, assume=assume, limits={'timeout_ms': 120000},
                                   label='number/%s[%s]/%s' % (k, va[0], tag)))
        for k in ['Pow', 'Root', 'Log', 'Atan2', 'Modulo']:
            for va in ('Integer', 'Float'):
                for vb in ('Integer', 'Float'):
                    if k in ('Pow', 'Modulo') and va == 'Integer' and vb == 'Integer': continue     # C09
                    a = Leaf('number', 'a', va, 'bv'); b = Leaf('number', 'b', vb, 'bv')
                    obs.append(EvalArm('C10', 'number', k, (k, a, b), (lambda v, k=k: sem.number_ref(k, v)), oc=oc, limits={'timeout_ms': 120000},
                                       label='number/%s[%s,%s]/%s' % (k, va[0], vb[0], tag)))
        # eval_decimal: each function node applies the rust_decimal operation of that name (operations abstract, witnesses confirmed against rust_decimal itself)
        from ..decimal import DecimalArm, DecLeaf
        for k in DEC_FUNCS1 + DEC_FUNCS2:
            leaves = [DecLeaf('a'), DecLeaf('b')] if k in DEC_FUNCS2 else [DecLeaf('a')]
            ob = DecimalArm('C10', k, (k,) + tuple(leaves), (lambda v, k=k: dec_fn_ref(k, v)), oc=oc, label='decimal/%s/%s' % (k, tag)); ob.differential = True
            obs.append(ob)
        # eval_complex: each function node applies the num_complex method of that name (methods abstract; same obligations as C08's E part)
        from .c08 import cx_ref, UN as CX_UN
        for k in ['Abs', 'Lb', 'Pow', 'Root', 'Log'] + list(CX_UN):
            n = 2 if k in ('Pow', 'Root', 'Log') else 1
            leaves = [Leaf('complex', 'x%d' % i) for i in range(n)]
            obs.append(EvalArm('C10', 'complex', k, (k,) + tuple(leaves), (lambda v, k=k: cx_ref(k, v)), oc=oc, label='complex/%s/%s' % (k, tag)))
        for k in ['Abs', 'Sign', 'Sqrt', 'Factorial']:
            a = Leaf('i64', 'a', None, 'bv' if k == 'Sqrt' else 'int')
            assume = (a.var <= 25) if k == 'Factorial' else None
            obs.append(EvalArm('C10', 'i64', k, (k, a), (lambda v, k=k: sem.i64_ref(k, v)), oc=oc, assume=assume))
    return obs


def run(ctx):
    results = run_obligations(ctx, obligations(ctx))
    bounds = dict(layer='T: Tokenizer::next of all five tokenizers on every README name, alias and word constant (followed by `(`+any char, by two arbitrary chars, and at end of input; thorough: every one-character near miss); '
                        'E: every function node of eval_f64 and eval_number (all operand variants) and the exact ones of eval_i64 on arbitrary operands; the function nodes of eval_complex (num_complex methods abstract) and of eval_decimal (abs floor ceil round trunc sgn ln lb exp exp2 sqrt pow log root) over abstract decimals',
                  configurations=['overflow-checks=on'] + (['overflow-checks=off'] if ctx.tier == 'thorough' else []))
    outside = ['numeric accuracy (1e-9) of libm, of the crate\'s Lanczos gamma and Lambert-W iteration, and eval_i64\'s "within 1" for ln/lb/log/exp/root through doubles: transcendental analysis, not decidable with the SMT theories available; the identity of the library function applied and its argument order are decided',
               'eval_complex and eval_decimal function nodes are decided up to the identity of the rust_decimal operation applied (its accuracy is the dependency\'s)',
               'arity and argument order at the parser level: C03/C04 token-stream checks', 'x deg / x rad constants: parser level (C04)']
    return finish(ctx, results, bounds, 'symbolic execution from MIR of (T) the tokenizers on keyword templates against the README vocabulary and (E) the function arms of ast::eval against the library function of the same name (uninterpreted functions for libm; floor/ceil/trunc/round/abs/sqrt/sgn/n! exact)', outside)
