"""C20 Compositionality: a bracketed subexpression can be replaced by its value."""
from ..harness import *
from ..player import *
from ..subst import *
from .c04 import BINOPS
from ..wlayer import PipelineOb

OUTER = {
    'f64': ['Add', 'Subtract', 'Multiply', 'Divide', 'Modulo', 'Pow', 'Negative', 'Abs', 'Floor', 'Round', 'Sqrt', 'Sin', 'Sign', 'Atan2', 'Log', 'Root'],
    'i64': ['Add', 'Subtract', 'Multiply', 'Divide', 'Modulo', 'Negative', 'Abs', 'Sign', 'And', 'Or'],
    'number': ['Add', 'Subtract', 'Multiply', 'Divide', 'Negative', 'Abs', 'Floor', 'Sqrt', 'Sin'],
    'complex': ['Add', 'Multiply', 'Negative', 'Sin'],
}
# inner nodes: quick = the first QUICK_INNER[ev] of the list
INNER = {'f64': ['Add', 'Multiply', 'Divide', 'Negative', 'Subtract', 'Sqrt', 'Abs', 'Floor'], 'i64': ['Add', 'Multiply', 'Negative', 'Divide', 'Subtract', 'Abs'],
         'number': ['Add', 'Multiply', 'Divide', 'Negative', 'Subtract'], 'complex': ['Add', 'Multiply', 'Negative']}
QUICK_INNER = {'f64': 4, 'i64': 3, 'number': 3, 'complex': 2}


def obligations(ctx):
    obs = []
    ocs = (True,) if ctx.tier == 'quick' else (True, False)
    for oc in ocs:
        tag = 'dbg' if oc else 'rel'
        prog = ctx.prog(oc)
        for ev, outers in OUTER.items():
            key = prog.enum_key('eval_%s::ast::Node' % ev)
            for o in outers:
                ar = len(prog.enum_fields[key][o])
                for pos in range(ar):
                    inners = INNER[ev] if ctx.tier == 'thorough' else INNER[ev][:QUICK_INNER[ev]]
                    for i in inners:
                        obs.append(CompositionOb('C20', ev, o, pos, i, oc=oc))
        # the public functions hand the evaluator's value to the caller unchanged (so the value reported for E alone is the value an enclosing operation sees)
        for ev in lx.EVALS:
            for k in (0, 1, 2):
                obs.append(PipelineOb('C20', ev, k, oc=oc))
        # the parser side: a bracketed group in operand position is the subtree of its content (and `@` a leaf) - P layer vs the reference
        for ev in lx.EVALS:
            OP = BINOPS
            obs.append(ParserOb('C20', ev, None, oc=oc, positions=[['Num', 'Ans'], OP, ['LeftParen'], ['Num'], OP, ['Num'], ['RightParen'], OP, ['Num', 'Ans']], label='%s/context/binary/%s' % (ev, tag)))
            obs.append(ParserOb('C20', ev, None, oc=oc, positions=[['ExplicitFunction'], ['LeftParen'], ['LeftParen'], ['Num'], OP, ['Num'], ['RightParen'], ['RightParen', 'Comma'], ['Num', 'Ans', 'RightParen'], ['RightParen']],
                                label='%s/context/argument/%s' % (ev, tag)))
    return obs


def run(ctx):
    results = run_obligations(ctx, obligations(ctx))
    bounds = dict(layer='E: for every listed parent node, every child position and inner node: eval(Outer(.., Inner(x..), ..)) is compared with eval(Outer(.., Number(v), ..)) with v replaced by the value of Inner(x..), over all operand values '
                        '(three explorations of ast::eval from MIR per obligation, results related by substitution and decided by z3); P: a bracketed group in operand / argument position is the subtree of its content; W: mod.rs of every evaluator with the three stages stubbed returns exactly the evaluator\'s value',
                  parents=OUTER, configurations=['overflow-checks=on'] + (['overflow-checks=off'] if ctx.tier == 'thorough' else []))
    outside = ['eval_decimal (abstract arithmetic) and parent nodes with loops (x!, ilog, w, aggregates) are not in the E part', 'contexts deeper than one parent node: by induction on the tree (the same recursive call evaluates every child)',
               'eval_number: the substituted value is a Float leaf; Integer-valued subexpressions are the Integer arms of C09']
    return finish(ctx, results, bounds, 'compositionality as a relation between explorations of the real evaluator: the result term of the composite tree equals the result term of the parent node with the leaf replaced by the subexpression\'s value, for every feasible combination of paths', outside)
