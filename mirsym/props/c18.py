"""C18 Number conversions are lossless and canonical."""
import z3
from ..harness import *
from ..reference import semantics as sem


def premise_number_from(prop, oc=True):
    """the contract of Number::from(f64) that the eval_number obligations of other properties assume (merged call): decided here for all doubles,
    so that a change to the conversion is reported by every check whose verdict rests on it"""
    v = Leaf('f64', 'v')
    return FnCall(prop, 'premise/Number::from(f64)/' + ('dbg' if oc else 'rel'), 'number', 'resolve:<number::Number as From<f64>>::from', [v],
                  lambda vals: sem.number_from_f64_ref(vals[0]), lambda cz, v=v: ['FROMF', v.render(cz)], oc=oc, limits={'timeout_ms': 120000})


def obligations(ctx):
    obs = []
    for oc in (True, False):
        v = Leaf('f64', 'v')
        obs.append(FnCall('C18', 'Number::from(f64)/' + ('dbg' if oc else 'rel'), 'number', 'resolve:<number::Number as From<f64>>::from', [v],
                          lambda vals: sem.number_from_f64_ref(vals[0]), lambda cz, v=v: ['FROMF', v.render(cz)], oc=oc, limits={'timeout_ms': 120000}))
        n = Leaf('i64', 'n')
        obs.append(FnCall('C18', 'Number::from(i64)/' + ('dbg' if oc else 'rel'), 'number', 'resolve:<number::Number as From<i64>>::from', [n],
                          lambda vals: [(True, sem.OKN_int(vals[0]))], lambda cz, n=n: ['FROMI', n.render(cz)], oc=oc))
    from .c19 import number_literal_obligations
    obs += number_literal_obligations('C18')      # the other conversion into Number: literal text -> Integer / Float
    return obs


def run(ctx):
    results = run_obligations(ctx, obligations(ctx))
    bounds = dict(layer='the two From impls of Number executed from MIR on one fully symbolic argument (all 2^64 double bit patterns / all i64 values)',
                  configurations=['overflow-checks=on', 'overflow-checks=off'])
    return finish(ctx, results, bounds, 'symbolic execution of <Number as From<f64>>::from and <Number as From<i64>>::from; z3 FP theory decides canonicity and value preservation for every argument', [])
