"""C03 Ok implies the entire input was one well-formed expression."""
from ..harness import *
from ..player import *
from ..tlayer import *
from ..wlayer import PipelineOb


def obligations(ctx):
    obs = []
    ocs = (True,) if ctx.tier == 'quick' else (True, False)
    Kmax = 3 if ctx.tier == 'quick' else 4
    for oc in ocs:
        tag = 'dbg' if oc else 'rel'
        for ev in lx.EVALS:
            for K in range(0, Kmax + 1):
                obs.append(ParserOb('C03', ev, K, oc=oc))
            obs += call_templates('C03', ev, oc, tag)
            # tokenizer side: unknown characters and names without `(` give no token (every string of 0..2 characters, all keywords)
            for k in (0, 1, 2):
                obs.append(full_alphabet('C03', ev, k, oc, tag))
            # W: the public function is exactly eval(parse(new(strip(input), Some(placeholder)))): no Ok that bypasses a stage
            for k in range(0, 4 if ctx.tier == 'quick' else 6):
                obs.append(PipelineOb('C03', ev, k, oc=oc))
    return obs


def run(ctx):
    results = run_obligations(ctx, obligations(ctx))
    bounds = dict(layer='P: Parser::new + parse of each of the five parsers (all of parser.rs from MIR) over every stream of exactly K symbolic tokens, K = 0..3 (thorough 0..4), over the evaluator\'s complete token vocabulary with symbolic payloads; '
                        'T: every string of 0..2 characters over the whole of Unicode; W: mod.rs of each evaluator on every string of 0..3 (thorough 0..5) arbitrary characters with Parser::new, Parser::parse and ast::eval as nondeterministic stubs',
                  configurations=['overflow-checks=on'] + (['overflow-checks=off'] if ctx.tier == 'thorough' else []))
    outside = ['streams longer than K tokens: argued by the structure of the precedence-climbing loop, not shown', 'characters that are no token of the evaluator are covered at the tokenizer layer (T) and end to end in C01/C13',
               '"every well-formed expression whose operations are all defined evaluates to Ok": the parser half is shown here (accepted sets are equal), definedness of operations is the E layer (C05-C11)']
    return finish(ctx, results, bounds, 'symbolic execution of the real parser over symbolic token streams; the set of accepted token sequences (read off the Ok paths by all-SAT over the token-kind variables) is compared with the set the reference grammar accepts, both directions, and trees are compared structurally', outside)
