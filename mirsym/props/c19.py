"""C19 Literals denote their exact decimal value; printed results read back unchanged."""
import z3
from ..harness import *
from ..tlayer import *
from ..summaries import is_digit


def digit(name): return CharLeaf(name, lambda v: z3.And(v >= 48, v <= 57), 'digit')


def number_literal_obligations(prop, oc=True, lens=(1, 16, 17, 18, 19)):
    """eval_number reads a digit-only literal that fits i64 as exactly that Integer (the text -> Number conversion that C09 / C18 build on)"""
    tag = 'dbg' if oc else 'rel'
    return [TokOb(prop, 'number', [digit('d%d' % i) for i in range(n)] + [CharLeaf('t')], 'number/lit/D%d+any/%s' % (n, tag), oc=oc) for n in lens]


def obligations(ctx):
    obs = []
    lens = [1, 2, 3, 5, 8, 17, 18, 19, 20, 25, 40] if ctx.tier == 'quick' else list(range(1, 41)) + [60, 100]
    for oc in (True, False):
        tag = 'dbg' if oc else 'rel'
        for ev in lx.EVALS:
            for n in lens:
                # DIGITS followed by one arbitrary character
                chars = [digit('d%d' % i) for i in range(n)] + [CharLeaf('t')]
                obs.append(TokOb('C19', ev, chars, '%s/lit/D%d+any/%s' % (ev, n, tag), oc=oc))
                if ev == 'i64': continue
                dots = sorted(set([0, 1, n // 2, n - 1, n])) if ctx.tier == 'quick' else range(0, n + 1)
                if n > 20 and ctx.tier == 'quick': dots = [0, n // 2, n]
                for dpos in dots:
                    # n digits with a point before digit index dpos (dpos == n: trailing point), then one arbitrary character
                    ds = [digit('d%d' % i) for i in range(n)]
                    chars = ds[:dpos] + [ord('.')] + ds[dpos:] + [CharLeaf('t')]
                    obs.append(TokOb('C19', ev, chars, '%s/lit/D%d.%d+any/%s' % (ev, dpos, n - dpos, tag), oc=oc))
            # two points: the literal ends before the second point
            for shape in ('1.2.3', '.5.5', '1..2', '12.', '.'):
                chars = [digit('d%d' % i) if c != '.' else ord('.') for i, c in enumerate(shape)] + [CharLeaf('t')]
                obs.append(TokOb('C19', ev, chars, '%s/lit/%s/%s' % (ev, shape, tag), oc=oc))
    return obs


def run(ctx):
    results = run_obligations(ctx, obligations(ctx))
    bounds = dict(layer='T: one Tokenizer::next call of each of the five tokenizers on literal templates: n symbolic ASCII digits, every point position, one arbitrary following character',
                  digits='n in {1,2,3,5,8,17,18,19,20,25,40} (thorough: 1..40, 60, 100)', configurations=['overflow-checks=on', 'overflow-checks=off'])
    outside = ['correct rounding of str::parse::<f64> and exactness of Decimal::from_str are the library contracts (uninterpreted R64 / dec_of here): what is decided is that the text handed to them has exactly the value of the literal',
               'print/re-read round trip: follows from the literal result plus std/rust_decimal Display contracts; the sign and the complex a+bi form are parser-level (C04 templates)',
               'eval_decimal literals with more than 28 significant digits, integer literals beyond i64 in eval_i64/eval_number: any non-panicking outcome']
    return finish(ctx, results, bounds, 'symbolic execution of Tokenizer::next from MIR on literal templates; z3 shows the token is Num with exactly the rational value (and integer/float kind) of the literal and that exactly the literal is consumed', outside)
