"""C17 Every feature subset builds and each evaluator behaves identically in it."""
import itertools, hashlib, re
from ..harness import *
from ..player import *
from .. import front, native
from .c04 import BINOPS, POSTFIX

# functions whose behaviour in a subset is decided semantically by an obligation of this check (so a cfg-dependent body there is not left open)
SEMANTICALLY_COVERED = ['f64_to_i64', 'as From<f64>>::from', 'as From<i64>>::from', 'operator_category.rs']

FEATS = ['eval_complex', 'eval_decimal', 'eval_f64', 'eval_i64', 'eval_number']


def subsets(ctx):
    allsub = [list(c) for n in range(1, 6) for c in itertools.combinations(FEATS, n)]
    if ctx.tier == 'thorough': return allsub
    # the only cfg inside shared code is feature = "eval_i64" (OperatorCategory): every single feature, every pair with eval_i64, and the full set
    return [[f] for f in FEATS] + [sorted([f, 'eval_i64']) for f in FEATS if f != 'eval_i64'] + [FEATS]


def body_fingerprint(fn):
    """name-independent fingerprint of a MIR body: statement / terminator structure with constants, without type paths"""
    def norm(x):
        if isinstance(x, tuple): return tuple(norm(y) for y in x)
        if isinstance(x, list): return tuple(norm(y) for y in x)
        if isinstance(x, dict): return tuple(sorted((k, norm(v)) for k, v in x.items()))
        if isinstance(x, str):
            s = re.sub(r'\b(?:\w+::)+(?=\w)', '', x)          # drop module qualifiers (they are trimmed differently per build)
            s = re.sub(r'src/[\w/]+\.rs:\d+:\d+: \d+:\d+', 'SPAN', s)
            return s
        return x
    h = hashlib.sha256()
    for bb in sorted(fn.blocks, key=lambda b: int(b[2:])):
        blk = fn.blocks[bb]
        h.update(repr((bb, norm(blk.stmts), norm(blk.term))).encode())
    return h.hexdigest()[:16]


def eval_fns(prog, ev):
    """fingerprints of the bodies of evaluator `ev`, keyed by a name that does not depend on path trimming"""
    out = {}
    for name, fl in prog.fns.items():
        m = re.search(r'<impl at (src/eval_%s/\w+\.rs):(\d+):(\d+): [^>]*>::(.*)$' % ev, name)
        if m: key = '%s:%s:%s::%s' % (m.group(1), m.group(2), m.group(3), m.group(4))
        elif name == 'eval_' + ev: key = name
        else:
            sig = fl[0].sig
            short = name.split('::')[-1]
            if '{closure' in name: short = '::'.join(name.split('::')[-2:])
            owner = ('eval_%s::' % ev) in name or (('eval_' not in name.split('::')[0]) and short.split('::')[0] in ('eval', 'gamma', 'gcd', 'lcm', 'lambert_w') and name.count('::') <= (1 if '{closure' not in name else 2)
                                                     and ('src/eval_%s/' % ev in sig or 'eval_%s::' % ev in sig or all(('eval_' + o) not in sig for o in ('f64', 'i64', 'decimal', 'complex', 'number'))))
            if not owner: continue
            key = 'free::' + short
        out[key] = body_fingerprint(fl[0])
    return out


class FeatureOb(Obligation):
    def __init__(self, feats, oc=True):
        Obligation.__init__(self, 'features/%s' % '+'.join(f[5:] for f in feats)); self.feats = feats; self.oc = oc; self.features = feats

    def run(self, ctx):
        res = dict(name=self.name, paths=1, obligations=0, discharged=0, confirmed=[], inconclusive=[], replayed=0, replay_mismatch=[], samples=[], queries={}, solver_s=0, transitions=1, fns=[], summaries=[])
        try:
            prog = ctx.prog(self.oc, self.feats)
        except front.BuildError as ex:
            # the MIR dump of this subset failed: confirm with the repository's own toolchain that the subset does not compile
            res['obligations'] = 1
            okb, msg = native.cargo_build_subset(ctx.build, self.feats)
            res['replayed'] = 1
            if okb:
                res['inconclusive'].append('%s: the MIR dump failed but cargo build succeeds: %s' % (self.name, str(ex)[-300:])); return res
            res['confirmed'].append(dict(input='cargo build --no-default-features --features ' + ','.join(self.feats), native='BUILD-FAILED ' + msg[:300], what='feature subset does not compile', profile='dev',
                                         obligation=self.name, key='features|build|' + '+'.join(self.feats), request=['BUILD', ','.join(self.feats)]))
            return res
        full = ctx.prog(self.oc)
        # exported functions: exactly the selected evaluators are compiled
        for f in FEATS:
            ev = f[5:]
            present = any(n == 'eval_' + ev or n.endswith('::eval_' + ev) for n in prog.fns)
            res['obligations'] += 1
            if present == (f in self.feats): res['discharged'] += 1
            else: res['confirmed'].append(dict(input='--features ' + ','.join(self.feats), native='eval_%s %s' % (ev, 'present' if present else 'missing'), what='exported functions do not match the selected features', profile='dev',
                                               obligation=self.name, key='features|exports|%s|%s' % ('+'.join(self.feats), ev), request=None))
        # the native crate links with exactly this subset (public API reachable)
        try:
            ctx.runner_path('dev', self.feats); res['obligations'] += 1; res['discharged'] += 1
        except front.BuildError as ex:
            # the runner (a binary that names the public API of exactly this subset) does not build: a violation only if the library itself
            # does not build with the subset, or the runner fails again on its own (otherwise a tooling failure: inconclusive)
            res['obligations'] += 1
            okb, msg = native.cargo_build_subset(ctx.build, self.feats)
            res['replayed'] += 1
            if not okb:
                res['confirmed'].append(dict(input='cargo build --no-default-features --features ' + ','.join(self.feats), native='BUILD-FAILED ' + msg[:300], what='feature subset does not compile', profile='dev',
                                             obligation=self.name, key='features|build|' + '+'.join(self.feats), request=['BUILD', ','.join(self.feats)]))
            else:
                try:
                    ctx.runner_path('dev', self.feats); res['discharged'] += 1
                except front.BuildError as ex2:
                    errs = [l for l in str(ex2).splitlines() if l.startswith('error')]
                    if any('E0' in l for l in errs):      # a compiler error about the API (unresolved import, missing item), not an environment failure
                        res['confirmed'].append(dict(input='--features ' + ','.join(self.feats), native='link failed: ' + '; '.join(errs[:3])[:300], what='public API of the subset is not what the features select', profile='dev', obligation=self.name,
                                                     key='features|link|' + '+'.join(self.feats), request=None))
                    else:
                        res['inconclusive'].append('%s: the runner for this subset could not be built (tooling): %s' % (self.name, str(ex2)[-200:]))
        # every compiled body of this subset is the same code as a body of the same (path-trimmed) name in the default build
        fullfp = {}
        for n, fl in full.fns.items(): fullfp.setdefault(n, set()).add(body_fingerprint(fl[0]))
        fullnames = list(full.fns)
        res['obligations'] += 1
        differ = []; matched = 0
        for n, fl in prog.fns.items():
            cands = [m for m in fullnames if m == n or m.endswith('::' + n)]
            fp = body_fingerprint(fl[0])
            if not cands: differ.append(n + ' (only in this subset)'); continue
            if any(fp in fullfp[m] for m in cands): matched += 1
            else: differ.append(n)
        res['matched_bodies'] = matched
        if matched < 10: res['inconclusive'].append('%s: could not match the bodies between the builds (%d matched)' % (self.name, matched))
        elif differ:
            # cfg-dependent code: identical behaviour is then shown only as far as the semantic obligations of this subset go (Number::from, precedence templates)
            res['cfg_dependent_bodies'] = differ[:8]
            if not all(any(k in d for k in SEMANTICALLY_COVERED) for d in differ):
                res['inconclusive'].append('%s: bodies differ from the default build and are not covered by a semantic obligation of this subset: %s' % (self.name, differ[:4]))
            else: res['discharged'] += 1
        else: res['discharged'] += 1
        res['samples'] = [dict(obligation=self.name, features=self.feats, mir_functions=len(prog.fns), digest=prog.digest[:12])]
        res['fns'] = sorted(prog.fns)[:50]
        return res


def obligations(ctx):
    obs = []
    for feats in subsets(ctx):
        obs.append(FeatureOb(feats))
        if 'eval_number' in feats and feats != FEATS:
            # Number::from (the only code of eval_number that could name another feature's dependency) from this subset's MIR, all 2^64 doubles
            from ..harness import FnCall, Leaf
            from ..reference import semantics as sem
            v = Leaf('f64', 'v')
            ob = FnCall('C17', 'Number::from(f64)-under/' + '+'.join(x[5:] for x in feats), 'number', 'resolve:<number::Number as From<f64>>::from', [v],
                        lambda vals: sem.number_from_f64_ref(vals[0]), lambda cz, v=v: ['FROMF', v.render(cz)], oc=True, limits={'timeout_ms': 120000})
            ob.features = feats
            obs.append(ob)
        # precedence order under this feature set: X op Y op Z over every operator of each selected evaluator, from the MIR of this build
        for f in feats:
            ev = f[5:]
            OP = BINOPS + POSTFIX
            ob = ParserOb('C17', ev, None, oc=True, positions=[['Num'], OP, ['Num'], OP, ['Num']], label='%s/prec-under/%s' % (ev, '+'.join(x[5:] for x in feats)))
            ob.features = feats
            obs.append(ob)
    return obs


def run(ctx):
    results = run_obligations(ctx, obligations(ctx))
    bounds = dict(subsets='quick: the 5 single features, the 4 pairs with eval_i64 (the only feature named in shared code) and the full set; thorough: all 31 non-empty subsets',
                  per_subset='MIR dump (= the build) succeeds, exactly the selected eval_* functions are compiled, the native crate links with the subset, every MIR body of each selected evaluator has the same structure as in the default build, and the parser built from this subset\'s MIR groups X op Y op Z for every operator pair exactly as the reference grammar')
    outside = ['"the same result for every input" is carried by: identical MIR bodies (name-independent fingerprint) plus the precedence templates on each build; inputs are not enumerated per subset',
               'Number and ParseError re-exports are checked through linking the runner against the subset only']
    return finish(ctx, results, bounds, 'the encoding is regenerated from the MIR of every feature subset; the derived PartialOrd on the cfg-dependent OperatorCategory is executed from that MIR inside the parser templates, and bodies are compared structurally with the default build', outside)
