"""C02 Every evaluation terminates within work linear in the input length."""
import z3
from ..harness import *
from ..tlayer import *
from ..wlayer import *
from ..decimal import *
from ..reference import semantics as sem
from .c01 import ANYREF, leaf_sets

BUDGET0 = 4096


def budget(n): return BUDGET0 + 256 * n


class StepArm(EvalArm):
    """E layer with the step counter as the assertion: a path that is about to exceed the budget is a candidate; it is
    confirmed by re-executing the MIR concretely on the model (counting steps exactly) and by a native run under a watchdog"""
    limit_is_violation = True


def e_obligations(ctx, oc, tag):
    obs = []
    lim = {'steps': BUDGET0, 'timeout_ms': 30000, 'branch_timeout_ms': 3000, 'abstract_fdiv': True, 'syntactic': True, 'max_wall_s': int(__import__('os').environ.get('C02_WALL', '900'))}
    for ev in ('f64', 'i64', 'number', 'decimal'):
        kinds = ['Factorial'] + (['ILog', 'LambertW'] if ev != 'i64' else ['Gcd', 'Lcm', 'Pow', 'Exp2'])
        for kind in kinds:
            n = 2 if kind in ('ILog', 'Gcd', 'Lcm', 'Pow') else 1
            for leaves in leaf_sets(ev, n):
                assume = None
                mylim = lim
                if kind in ('Gcd', 'Lcm'):
                    bits = (8 if kind == 'Gcd' else 5) if ctx.tier == 'quick' else (12 if kind == 'Gcd' else 7)
                    assume = z3.And([z3.And(l.var > -(1 << bits), l.var < (1 << bits)) for l in leaves])
                    mylim = dict(lim, syntactic=False, timeout_ms=60000)       # Euclid: explored with the solver on bounded operands
                if kind == 'Pow' and ev == 'i64': assume = z3.Or(leaves[1].var <= 2, leaves[1].var > 64)
                if kind == 'Factorial' and ev == 'number' and leaves[0].variant == 'Integer':
                    leaves = [Leaf('number', 'x0', 'Integer', 'int')]
                shape = (kind, list(leaves)) if kind in ('Gcd', 'Lcm') else (kind,) + tuple(leaves)
                lab = '%s/E/%s%s/%s' % (ev, kind, ('[' + ''.join(l.variant[0] for l in leaves) + ']') if ev == 'number' else '', tag)
                if ev == 'decimal':
                    ob = DecimalArm('C02', kind, shape, ANYREF, oc=oc, label=lab, limits=dict(lim, steps=600, max_paths=400))
                    ob.limit_is_violation = False      # the iteration counts of eval_decimal are abstract values: only reported (see outside)
                else:
                    ob = StepArm('C02', ev, kind, shape, ANYREF, oc=oc, label=lab, limits=mylim, assume=assume, replay_cap=1)
                obs.append(ob)
        for kind in ('Avg', 'Med', 'Min'):
            for leaves in leaf_sets(ev, 3)[:1]:
                if ev == 'decimal': continue
                obs.append(StepArm('C02', ev, kind, (kind, list(leaves)), ANYREF, oc=oc, label='%s/E/%s3/%s' % (ev, kind, tag), limits=lim, replay_cap=2))
    return obs


def w_obligations(ctx, oc, tag):
    obs = []
    for ev in lx.EVALS:
        templates = ['@!', '-@!', '@']
        if ev in ('f64', 'number', 'decimal'): templates += ['ilog(@,@)', 'w(@)', 'lambert_w(@)', '(@)!'] + (['@!!'] if ctx.tier == 'thorough' and ev != 'f64' else [])      # f64 `@!!`: z3 does not decide the feasibility of over-budget paths through two factorial loops (left out of the bound)
        if ev == 'i64': templates += ['gcd(@,6)', 'lcm(@,6)', 'exp2(@)', '@<<@']
        for s, variant in [(s, v) for s in templates for v in ((None,) if ev != 'number' else ('Integer', 'Float'))]:
            if ev == 'complex' and '!' in s: continue
            ob = PublicOb('C02', ev, [ord(c) for c in s], any_outcome, '%s/W/%s%s/%s' % (ev, s, ('[' + variant[0] + ']') if variant else '', tag), oc=oc, ph=PhLeaf(ev, 'ph', variant),
                          limits={'steps': budget(len(s)), 'timeout_ms': 30000, 'branch_timeout_ms': 3000, 'abstract_fdiv': True, 'syntactic': not ('gcd' in s or 'lcm' in s), 'max_paths': 400 if ev == 'decimal' else None}, replay_cap=1)
            if ev == 'decimal' or (ev == 'i64' and ('gcd' in s or 'lcm' in s)): ob.limit_is_violation = False
            obs.append(ob)
        # no operand is evaluated more than once: right- and left-nested chains of depth 14 of every binary operator and nested one-argument calls
        # (re-evaluating an operand doubles the work at every level: 2^14 evaluations exceed the budget)
        NEST = {'i64': ['+', '*', '%', '/', '^', '&', '<<'], 'f64': ['+', '*', '%', '/', '^'], 'number': ['+', '*', '%', '/'], 'decimal': ['+', '%', '/'], 'complex': ['+', '*', '/', '^']}[ev]
        for op in (NEST if ctx.tier == 'thorough' or ev != 'decimal' else NEST[:2]):
            D = 14
            right = '@' + ''.join(op + '(@' for _ in range(D)) + ')' * D
            left = '(' * D + '@' + ''.join(op + '@)' for _ in range(D))
            rightn = '1' + ''.join(op + '(' + str(k) for k in range(2, D + 2)) + ')' * D          # 1%(2%(3%...)): operands that keep every intermediate result non-zero
            leftn = '(' * D + '99' + ''.join(op + str(k) + ')' for k in range(2, D + 2))
            for nm, s in (('right', right), ('left', left), ('right-literals', rightn), ('left-literals', leftn)):
                ob = PublicOb('C02', ev, [ord(c) for c in s], any_outcome, '%s/W/nest-%s%s/%s' % (ev, nm, op, tag), oc=oc,
                              limits={'steps': budget(len(s)), 'timeout_ms': 30000, 'branch_timeout_ms': 3000, 'abstract_fdiv': True, 'syntactic': True, 'max_paths': 400}, replay_cap=0)
                if ev == 'decimal': ob.limit_is_violation = False
                obs.append(ob)
        fn1 = {'i64': 'abs', 'f64': 'sqrt', 'number': 'abs', 'decimal': 'abs', 'complex': 'sqrt'}[ev]
        s = (fn1 + '(') * 14 + '@' + ')' * 14
        obs.append(PublicOb('C02', ev, [ord(c) for c in s], any_outcome, '%s/W/nest-%s/%s' % (ev, fn1, tag), oc=oc,
                            limits={'steps': budget(len(s)), 'timeout_ms': 30000, 'branch_timeout_ms': 3000, 'abstract_fdiv': True, 'syntactic': True, 'max_paths': 400}, replay_cap=0))
        # lexing and parsing work: every string of 0..2 characters, long literals and superscript runs, nested brackets
        for k in range(0, 3):
            if k == 2 and ev == 'decimal' and ctx.tier == 'quick': continue
            obs.append(PublicOb('C02', ev, [CharLeaf('c%d' % i) for i in range(k)], any_outcome, '%s/W/any%d/%s' % (ev, k, tag), oc=oc,
                                limits={'steps': budget(k), 'timeout_ms': 20000, 'branch_timeout_ms': 3000, 'abstract_fdiv': True, 'syntactic': True}, replay_cap=0))
        for n in (10, 30):
            chars = [ord('(')] * n + [digit('d')] + [ord(')')] * n
            obs.append(PublicOb('C02', ev, chars, any_outcome, '%s/W/nest%d/%s' % (ev, n, tag), oc=oc, limits={'steps': budget(2 * n + 1), 'timeout_ms': 20000}, replay_cap=2))
            chars = [digit('d%d' % i) for i in range(n)]
            obs.append(PublicOb('C02', ev, chars, any_outcome, '%s/W/digits%d/%s' % (ev, n, tag), oc=oc, limits={'steps': budget(n), 'timeout_ms': 20000}, replay_cap=2))
    return obs


def obligations(ctx):
    obs = []
    for oc in ((True, False) if ctx.tier == 'thorough' else (True,)):
        tag = 'dbg' if oc else 'rel'
        obs += e_obligations(ctx, oc, tag)
        obs += w_obligations(ctx, oc, tag)
    return obs


def run(ctx):
    results = run_obligations(ctx, obligations(ctx))
    bounds = dict(counter='steps = calls of crate functions + loop back edges taken in crate functions (found by DFS over each MIR body) + elements consumed by library iterators; budget 4096 + 256*len',
                  layers='E: every looping construct (x!, ilog, w, gcd, lcm, integer ^, exp2, aggregates of 3) on arbitrary operand values; W: the public functions on `@!`, `ilog(@,@)`, `w(@)`, ... with an arbitrary placeholder, on every string of 0..2 characters, on 10/30 nested brackets and 10/30 digit literals',
                  gcd='gcd/lcm operands below 2^8 (thorough 2^12); Euclid on u64 needs at most 93 iterations (Fibonacci bound), which is far below the budget but is argued, not explored',
                  log10='the iteration count of Lambert W is ceil(log10(x)/3): log10 is uninterpreted with the sound range axiom log10(x) <= 308.26 for finite x',
                  configurations=['overflow-checks=on'] + (['overflow-checks=off'] if ctx.tier == 'thorough' else []))
    outside = ['eval_decimal: iteration counts depend on abstract Decimal values (to_i64 / to_i32 of uninterpreted results): paths are explored up to a step bound and replayed with boundary values under a wall-clock watchdog; a step-count violation there would be reported as a native TIMEOUT only',
               'inputs longer than the templates; the linear bound for long inputs rests on "one token per parser loop iteration, at least one character per token", which the K-token and k-character explorations show for short inputs only']
    return finish(ctx, results, bounds, 'symbolic execution with a step counter as unwinding assertion: no path may exceed the budget; a candidate is confirmed by exact concrete re-execution of the MIR on the model and a native run under a 5 s watchdog', outside)
