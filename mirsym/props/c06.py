"""C06 eval_i64 returns the exact integer result or Err, never a wrapped value (debug and release MIR)."""
import z3
from ..harness import *
from ..reference import semantics as sem
from ..wlayer import PublicOb
from ..tlayer import digit, CharLeaf

BIN = ['Add', 'Subtract', 'Multiply', 'Divide', 'Modulo', 'And', 'Or', 'LeftShift', 'RightShift', 'Pow']
UN = ['Negative', 'Abs', 'Sign', 'Factorial']


def obligations(ctx):
    obs = []
    for oc in (True, False):
        for k in BIN:
            a = Leaf('i64', 'a'); b = Leaf('i64', 'b')
            assume = None; limits = {}
            if k == 'Pow':
                # exponent case split 0..64 is exact; quick tier explores exponents up to 12 and everything beyond 64
                pass        # every exponent: exact case split 0..64 and the two classes beyond
                limits = {'timeout_ms': 60000}
            obs.append(EvalArm('C06', 'i64', k, (k, a, b), (lambda v, k=k: sem.i64_ref(k, v)), oc=oc, assume=assume, limits=limits))
        for k in UN:
            a = Leaf('i64', 'a')
            assume = None
            if k == 'Factorial': assume = a.var <= 25      # n! overflows from 21 on; larger n only repeat the overflow (and belong to C02)
            obs.append(EvalArm('C06', 'i64', k, (k, a), (lambda v, k=k: sem.i64_ref(k, v)), oc=oc, assume=assume))
        # W: the same statement end to end (tokenizer, parser and evaluator from MIR): templates with a symbolic digit D and an arbitrary placeholder
        tag = 'dbg' if oc else 'rel'
        W = [('@+@', 'Add', 'pp'), ('@*@', 'Multiply', 'pp'), ('@^D', 'Pow', 'pd'), ('2^@', 'Pow', '2p'), ('pow(2,@)', 'Pow', '2p'), ('3^@', 'Pow', '3p'), ('D<<@', 'LeftShift', 'dp'), ('@>>@', 'RightShift', 'pp'),
             ('@<<D', 'LeftShift', 'pd'), ('@/D', 'Divide', 'pd'), ('D%@', 'Modulo', 'dp'), ('mod(@,D)', 'Modulo', 'pd'), ('-@', 'Negative', 'p'), ('abs(@)', 'Abs', 'p'), ('sgn(@)', 'Sign', 'p'), ('D-@', 'Subtract', 'dp'), ('@&D', 'And', 'pd'), ('@|@', 'Or', 'pp')]
        if ctx.tier == 'thorough': W += [('D^@', 'Pow', 'dp'), ('pow(D,@)', 'Pow', 'dp'), ('@^@', 'Pow', 'pp'), ('@!', 'Factorial', 'p'), ('D!', 'Factorial', 'd'), ('@⁶³', 'Pow', 'p63'), ('D⁶³', 'Pow', 'd63'), ('2⁶³', 'Pow', '263')]
        else: W += [('@!', 'Factorial', 'p')]
        for text, kind, args in W:
            d = digit('d0')
            chars = [d if c == 'D' else ord(c) for c in text]

            def ref(cs, ph, kind=kind, args=args, d=d):
                dv = d.var - 48
                vals = {'pp': [ph, ph], 'dp': [dv, ph], 'pd': [ph, dv], '2p': [2, ph], '3p': [3, ph], 'p': [ph], 'd': [dv], 'p63': [ph, 63], 'd63': [dv, 63], '263': [2, 63]}[args]
                return sem.i64_ref(kind, vals)
            assume = None
            obs.append(PublicOb('C06', 'i64', chars, ref, 'i64/W/%s/%s' % (text, tag), oc=oc, limits={'steps': 8000, 'timeout_ms': 60000}))
        if ctx.tier == 'thorough':
            # error propagation through a parent node: an overflowing child makes the whole tree Err, never a wrapped value
            for outer in ('Add', 'Multiply', 'Subtract'):
                for inner in ('Add', 'Multiply', 'Negative'):
                    a = Leaf('i64', 'a'); b = Leaf('i64', 'b'); c = Leaf('i64', 'c')
                    child = (inner, a, b) if inner != 'Negative' else (inner, a)
                    lv = [a, b, c] if inner != 'Negative' else [a, c]
                    def ref(v, outer=outer, inner=inner):
                        iv = v[:-1]; cv = v[-1]
                        out = []
                        for cond, oc_ in sem.i64_ref(inner, iv):
                            if oc_[0] != 'ok': out.append((cond, oc_)); continue
                            mid = oc_[2]
                            for c2, o2 in sem.i64_ref(outer, [mid, cv]): out.append((b_and(cond, c2), o2))
                        return out
                    obs.append(EvalArm('C06', 'i64', outer + '(' + inner + ')', (outer, child, c), ref, oc=oc, label='i64/%s(%s)/%s' % (outer, inner, 'dbg' if oc else 'rel')))
    return obs


def run(ctx):
    obs = obligations(ctx)
    results = run_obligations(ctx, obs)
    bounds = dict(layer='E: ast::eval on one node (thorough: two nested nodes) with arbitrary i64 leaves; W: eval_i64 end to end (mod.rs, tokenizer, parser, evaluator from MIR) on one-operator templates with a symbolic digit and an arbitrary placeholder',
                  configurations=['overflow-checks=on', 'overflow-checks=off'],
                  pow='exponent split exactly for 0..64, |base|<=1 periodic and |base|>=2 overflow beyond 64',
                  factorial='n <= 25 (n! overflows i64 from n = 21)', shifts='count split 0..63 exactly, all others one class')
    outside = ['expressions deeper than two operator nodes are covered by the compositionality argument (C20) only',
               'exponent outside 0..4294967295 and n! for n < 0 are outside the statement (any non-panicking outcome accepted)',
               'x << y when x*2^y does not fit, and i64::MIN % -1: left open by the statement']
    return finish(ctx, results, bounds, 'symbolic execution of eval_i64::ast::eval from MIR; each path judged against exact integer arithmetic by z3 (Int theory), counterexamples replayed natively in the matching profile', outside)
