"""C04 Operator precedence, associativity and bracket overriding."""
import itertools
from ..harness import *
from ..player import *

BINOPS = ['Bar', 'Ampersand', 'LeftShift', 'RightShift', 'Add', 'Subtract', 'Multiply', 'Divide', 'Modulo', 'Caret']
POSTFIX = ['DegToRad', 'RadToDeg', 'Superscript', 'ExclamationMark']
OPERAND = ['Num']
ANYOPERAND = ['Num', 'Ans', 'Pi', 'E']
SIGN = ['Add', 'Subtract']


def operand_shapes():
    """an operand with optional prefix sign and optional postfix !"""
    return [[OPERAND], [SIGN, OPERAND], [OPERAND, ['ExclamationMark']], [SIGN, OPERAND, ['ExclamationMark']]]


def obligations(ctx):
    obs = []
    ocs = (True,) if ctx.tier == 'quick' else (True, False)
    for oc in ocs:
        tag = 'dbg' if oc else 'rel'
        for ev in lx.EVALS:
            n = 0
            OP = BINOPS + POSTFIX
            shapes = operand_shapes()
            # pairs of adjacent operators: X op Y op Z with every operand decoration
            trip = list(itertools.product(shapes, repeat=3))
            if ctx.tier == 'quick': trip = [t for i, t in enumerate(trip) if i % 7 == 0 or all(len(x) == 1 for x in t)]
            for a, b, c in trip:
                pos = a + [OP] + b + [OP] + c
                obs.append(ParserOb('C04', ev, None, oc=oc, positions=pos, label='%s/prec/triple%d/%s' % (ev, n, tag))); n += 1
            obs.append(ParserOb('C04', ev, None, oc=oc, positions=[ANYOPERAND, OP, ANYOPERAND, OP, ANYOPERAND], label='%s/prec/triple-anyoperand/%s' % (ev, tag)))
            # a postfix operator directly after another operator / chains of four operators (thorough)
            for a, b in itertools.product(shapes, repeat=2):
                obs.append(ParserOb('C04', ev, None, oc=oc, positions=a + [OP] + [POSTFIX] + [OP] + b, label='%s/prec/postfix%d/%s' % (ev, n, tag))); n += 1
            if ctx.tier == 'thorough':
                obs.append(ParserOb('C04', ev, None, oc=oc, positions=[OPERAND, OP, OPERAND, OP, OPERAND, OP, OPERAND], label='%s/prec/quad/%s' % (ev, tag)))
            # brackets override the order: every bracket kind around every contiguous sub-sequence of X op Y op Z
            for op_, cl_ in (('LeftParen', 'RightParen'), ('LeftFloor', 'RightFloor'), ('LeftCeiling', 'RightCeiling')):
                seq = [OPERAND, OP, OPERAND, OP, OPERAND]
                for i, j in ((0, 3), (2, 5), (0, 5), (0, 1), (2, 3), (4, 5)):
                    pos = seq[:i] + [[op_]] + seq[i:j] + [[cl_]] + seq[j:]
                    obs.append(ParserOb('C04', ev, None, oc=oc, positions=pos, label='%s/prec/bracket-%s-%d-%d/%s' % (ev, op_, i, j, tag)))
                # sign and factorial around a group
                obs.append(ParserOb('C04', ev, None, oc=oc, positions=[SIGN, [op_], OPERAND, OP, OPERAND, [cl_], ['ExclamationMark', 'Caret', 'Superscript'], OPERAND],
                                    label='%s/prec/signed-group-%s/%s' % (ev, op_, tag)))
    return obs


def run(ctx):
    results = run_obligations(ctx, obligations(ctx))
    bounds = dict(layer='P: the five real parsers over template token streams: X op Y op Z with op ranging over every binary and postfix operator of the evaluator, every operand optionally signed and/or followed by `!`; '
                        'operator-postfix-operator chains; ( ) and floor / ceiling brackets around every contiguous sub-sequence; operands are Num with a symbolic payload (one template also with @, pi, e)',
                  selection='quick: all undecorated triples plus every 7th decorated shape; thorough: all 64 shapes, four-operator chains',
                  configurations=['overflow-checks=on'] + (['overflow-checks=off'] if ctx.tier == 'thorough' else []))
    outside = ['expressions with more than three (thorough four) operators outside brackets', 'the value of the tree is the E layer (C05-C11) by the compositionality argument (C20)',
               'the precedence table itself (OperatorCategory order, Token::get_oper_prec) is exercised through these templates, not checked in isolation']
    return finish(ctx, results, bounds, 'symbolic execution of the real parser over template token streams; for every accepted operator sequence the tree is compared structurally with the tree of the reference operator-precedence grammar (and the accepted sets are compared in both directions)', outside)
