"""C16 Evaluation is a pure function of (expression, placeholder)."""
import re
import z3
from ..harness import *
from ..wlayer import *
from ..tlayer import CharLeaf
from .. import native

GLOBAL_STATE_TYPES = r'\b(Cell|RefCell|UnsafeCell|OnceCell|OnceLock|LazyLock|LazyCell|Mutex|RwLock|Atomic\w+|LocalKey|thread_local|Condvar|mpsc|static mut)\b'
IMPURE_CALLEES = r'(std::env::|std::time::|Instant::now|SystemTime::now|std::fs::|std::io::|std::net::|std::process::|thread_rng|rand::|getrandom|std::thread::|LocalKey|::with_borrow|::lock\b|fetch_add|fetch_sub|::store\b|::swap\b|compare_exchange|std::ptr::write|read_volatile|write_volatile|std::alloc::)'


def reachable(prog, roots):
    """crate functions reachable from the public entry points, and every callee name met on the way"""
    seen = set(); callees = set(); stack = list(roots)
    while stack:
        f = stack.pop()
        if f in seen or f not in prog.fns: continue
        seen.add(f)
        for blk in prog.fns[f][0].blocks.values():
            t = blk.term
            if t and t[0] == 'call':
                callees.add(t[2])
                tgt = prog.resolve(t[2])
                if tgt: stack.append(tgt)
                for a in t[3]:
                    if a[0] == 'const' and 'closure@' in a[1]:
                        m = re.search(r'closure@([^}]*)', a[1])
                        if m and m.group(1) in prog.closures: stack.append(prog.closures[m.group(1)])
            for st_ in blk.stmts:
                if st_[0] == 'assign' and st_[2][0] == 'closure':
                    m = re.search(r'closure@([^}]*)', st_[2][1])
                    if m and m.group(1) in prog.closures: stack.append(prog.closures[m.group(1)])
    return seen, callees


class ScanOb(Obligation):
    """every MIR body reachable from the five public functions is scanned for places that outlive a call: statics, thread locals,
    interior-mutable globals, and for library callees with observable global effects.  With none present, no execution can
    depend on anything but its arguments (each read of a global place would otherwise be a fresh, unconstrained value)."""

    def __init__(self, oc=True):
        Obligation.__init__(self, 'purity-scan/%s' % ('dbg' if oc else 'rel')); self.oc = oc

    def run(self, ctx):
        prog = ctx.prog(self.oc)
        res = dict(name=self.name, paths=1, obligations=0, discharged=0, confirmed=[], inconclusive=[], replayed=0, replay_mismatch=[], samples=[], queries={}, solver_s=0, transitions=1, fns=[], summaries=[])
        roots = [n for n in prog.fns if re.match(r'^eval_(f64|i64|decimal|complex|number)$', n)]
        seen, callees = reachable(prog, roots)
        res['fns'] = sorted(seen)
        suspects = []
        # 1. static items of the crate
        for name, (mutable, ty, body) in prog.statics.items():
            suspects.append('static%s %s: %s' % (' mut' if mutable else '', name, ty))
        # 2. locals / signatures of reachable bodies with interior-mutable or thread-local types, reads of statics in MIR
        for f in seen:
            fn = prog.fns[f][0]
            for idx, ty in fn.locals.items():
                if re.search(GLOBAL_STATE_TYPES, ty): suspects.append('%s: local _%s of type %s' % (f, idx, ty[:80]))
            for blk in fn.blocks.values():
                for st_ in blk.stmts:
                    txt = repr(st_)
                    if 'thread_local' in txt or '/*tls*/' in txt or '__RUST_STD_INTERNAL' in txt or (re.search(r"const \{alloc\d+: &(mut )?", txt) and 'static' in txt): suspects.append('%s: %s' % (f, txt[:100]))
        # 3. callees with global effects
        for c in sorted(callees):
            if re.search(IMPURE_CALLEES, c): suspects.append('callee ' + c[:120])
        res['obligations'] = len(seen) + len(callees); res['scanned_bodies'] = len(seen); res['scanned_callees'] = len(callees)
        res['samples'] = [dict(obligation=self.name, scanned_bodies=len(seen), distinct_callees=len(callees), static_items=len(prog.statics), suspects=suspects[:5])]
        if not suspects:
            res['discharged'] = res['obligations']
            return res
        res['suspects'] = suspects
        # global state is present: look for an observable effect by replaying call histories natively (same process vs fresh process)
        diffs = history_differential(ctx, 'dev' if self.oc else 'release')
        if diffs:
            for d in diffs[:3]:
                res['confirmed'].append(dict(input=d['history'], native=d['second_in_history'] + ' vs fresh ' + d['fresh'], what='result depends on an earlier call (global state: %s)' % suspects[0][:100], profile='dev' if self.oc else 'release',
                                             obligation=self.name, key='purity|history|%s' % suspects[0][:60], request=d['request']))
        else:
            res['inconclusive'].append('%s: global state reachable from the public functions (%s) but no history shows an effect' % (self.name, '; '.join(suspects[:3])))
        return res


STRESS = ['(x', '(<1)', '(99999999999999999999999)', '(', '1+', '((((', 'abs(', '1/0', '#', '(1', '1)', 'max(1,', '((1+2)*(3+4))']
HIST = [('f64', ['1+2*@', '@^2', '1/@', '@', 'sin(@)+1', '2(3)!', '1/0', '1+', 'max(@,2)', '((((((((@))))))))']), ('i64', ['1+2*@', '@%7', 'gcd(@,12)', '1/0', '(', 'min(@,3)', '@!', '21!', '22!', '20!', '5!', '(2+3)*@', '((((((((@))))))))']),
        ('number', ['1+2*@', '@/2', 'round(@)', '1.5+@', '2^@']), ('decimal', ['1+2*@', '@/3', '0.1+0.2']), ('complex', ['@*i', 'i*i', 'sqrt(@)'])]
PHS = {'f64': ['x4000000000000000', 'x4008000000000000', 'x7ff8000000000000', 'x0000000000000000', 'x8000000000000000'], 'i64': ['2', '3', '-7', '21', '30'], 'number': ['I2', 'I3', 'Fx4004000000000000'], 'decimal': ['d2', 'd3', 'd0.5'],
       'complex': ['cx4000000000000000,x0000000000000000', 'cx0000000000000000,x3ff0000000000000']}


def history_differential(ctx, profile):
    """[call A; call B] in one process vs call B in a fresh process, for every ordered pair of a small corpus (including failing calls and
    the same expression with a different placeholder)"""
    binp = ctx.runner_path(profile)
    out = []
    for ev, exprs in HIST:
        calls = [(e_, p) for e_ in exprs for p in PHS[ev]]
        fresh = {}
        for c in calls:
            r = native.Runner(binp); fresh[c] = r.request('EVAL', ev, c[1], native.esc(c[0]))[:2]; r.close()
        for a in calls:
            r = native.Runner(binp)
            r.request('EVAL', ev, a[1], native.esc(a[0]))
            for b in calls:
                got = r.request('EVAL', ev, b[1], native.esc(b[0]))[:2]
                if got != fresh[b]:
                    out.append(dict(history='%s(%r,%s) then %s(%r,%s)' % (ev, a[0], a[1], ev, b[0], b[1]), second_in_history=' '.join(got), fresh=' '.join(fresh[b]), request=['EVAL', ev, b[1], native.esc(b[0])]))
                    if len(out) > 5: r.close(); return out
            r.close()
        # state that only builds up over many calls (counters, caches that fill, guards that leak on an error path): repeat one call many times, then the corpus
        for rep in [(f_, PHS[ev][0]) for f_ in STRESS] + calls[:3]:
            r = native.Runner(binp)
            for _ in range(300): r.request('EVAL', ev, rep[1], native.esc(rep[0]))
            for b in calls:
                got = r.request('EVAL', ev, b[1], native.esc(b[0]))[:2]
                if got != fresh[b]:
                    out.append(dict(history='300 x %s(%r,%s) then %s(%r,%s)' % (ev, rep[0], rep[1], ev, b[0], b[1]), second_in_history=' '.join(got), fresh=' '.join(fresh[b]), request=['EVAL', ev, b[1], native.esc(b[0])]))
                    if len(out) > 5: r.close(); return out
            r.close()
    return out


def obligations(ctx):
    obs = [ScanOb(True)] + ([ScanOb(False)] if ctx.tier == 'thorough' else [])
    # W: two calls in sequence inside one symbolic state give the same result as the second call alone (trivially so when nothing is shared;
    # with a static present each read is a fresh value and the results would differ)
    for ev in ('f64', 'i64', 'number'):
        for s in ('@+1', '(@)', '@*@'):
            obs.append(PublicOb('C16', ev, [ord(c) for c in s], any_outcome, '%s/W/%s/dbg' % (ev, s), oc=True, replay_cap=3))
    return obs


def run(ctx):
    results = run_obligations(ctx, obligations(ctx))
    bounds = dict(scan='every MIR body reachable from eval_f64, eval_i64, eval_decimal, eval_complex, eval_number (call graph from the MIR, closures included) and every library callee named in them',
                  looked_for='static / static mut items, thread locals, locals of interior-mutable or synchronisation types, reads of static allocations, library callees with global effects (env, time, fs, io, rng, thread, atomics)')
    outside = ['real thread schedules are not explored: the claim for concurrency is that no shared location exists, established over all reachable bodies',
               'state inside the dependencies (rust_decimal, num_complex, std formatting / allocation) is trusted to be unobservable']
    return finish(ctx, results, bounds, 'global-state scan over the MIR of every reachable body (a read of a global place would be a fresh unconstrained value in the symbolic execution: none exists, so results are functions of the arguments); if a global place is found, call histories are replayed natively against fresh processes', outside)
