"""C11 Aggregates return the true aggregate for any arity and argument order."""
import itertools
import z3
from ..harness import *
from ..reference import semantics as sem

AGG = ['Min', 'Max', 'Avg', 'Med']


def failing_child(ev):
    """a subtree whose evaluation is Err by the evaluator's own definition"""
    if ev == 'i64': return ('Divide', ConstLeaf('i64', 1), ConstLeaf('i64', 0))
    if ev == 'f64': return ('LambertW', ConstLeaf('f64', -1.0))
    if ev == 'number': return ('LambertW', ConstLeaf('number', -1.0, 'Float'))
    raise KeyError(ev)


class ConstLeaf(Leaf):
    def __init__(self, ev, val, variant=None):
        self.ev = ev; self.name = 'const'; self.variant = variant; self.constraint = True
        if ev == 'i64' or variant == 'Integer': self.var = val
        else: self.var = fp_const(val)


def num_agg_ref(kind, vals):
    """eval_number aggregates: the result has the numeric (double) value of the aggregate of the arguments' double values.
    Cheap structural candidates come first (the result is one of the arguments, selected by comparisons of double values in
    either direction), the numeric statement last."""
    if kind in ('Min', 'Max') and all(v[0] == 'adt' and v[2] == 'Integer' for v in vals):
        # all arguments are Integers: the true extremum is the exact integer one (no detour through doubles), always Ok
        def exact(x):
            if x[0] != 'adt': return False
            if x[2] != 'Integer': return False
            best = vals[0][3][0]
            for a in vals[1:]:
                ai = a[3][0]
                best = z3.If((ai < best) if kind == 'Min' else (ai > best), ai, best)      # z3 `<` on bit-vectors is signed
            return sem.same_int(x[3][0], best)
        return [(True, sem.OKP(exact, 'exact integer ' + kind))]
    fs = [sem.num_to_f64(v) for v in vals]
    cs = sem.f64_aggregate_ref(kind, fs)
    out = []
    for cond, oc in cs:
        if oc[0] != 'ok': out.append((cond, oc)); continue
        f64pred = oc[1]

        def pred(x, f64pred=f64pred):
            cands = []
            if kind in ('Min', 'Max') and x[0] == 'adt':
                for less_first in (True, False):
                    accs = [(True, vals[0])]
                    for a in vals[1:]:
                        nxt = []; other = []
                        for c, acc in accs:
                            fa_, fb_ = sem.num_to_f64(acc), sem.num_to_f64(a)
                            if kind == 'Min': keep = z3.fpLT(fa_, fb_) if less_first else z3.Not(z3.fpLT(fb_, fa_))
                            else: keep = z3.fpGT(fa_, fb_) if less_first else z3.Not(z3.fpGT(fb_, fa_))
                            if acc[0] == 'adt' and a[0] == 'adt' and acc[2] == 'Integer' and a[2] == 'Integer':      # two Integers compare exactly
                                keep = (acc[3][0] < a[3][0]) if kind == 'Min' else (acc[3][0] > a[3][0])
                            nxt.append((b_and(c, keep), acc)); other.append(b_and(c, z3.Not(keep)))
                        nxt.append((b_or(*other), a)); accs = nxt
                    cands.append(b_or(*[b_and(c, same_number(x, acc)) for c, acc in accs]))
            return z3.Or([sem.as_z3(c) for c in cands] + [sem.as_z3(f64pred(sem.num_to_f64(x)))])
        out.append((cond, sem.OKP(sem.lift(pred, lambda v, f64pred=f64pred: f64pred(v)), ('numeric', oc[2]))))
    return out


def same_number(x, y):
    if x[2] != y[2]: return False
    return sem.same_int(x[3][0], y[3][0]) if x[2] == 'Integer' else sem.same_f64(x[3][0], y[3][0])


def obligations(ctx):
    obs = []
    maxn = 3 if ctx.tier == 'quick' else 4
    for oc in (True, False):
        tag = 'dbg' if oc else 'rel'
        for ev in ('i64', 'f64', 'number'):
            for k in AGG:
                for n in range(1, maxn + 1):
                    variants = [None]
                    if ev == 'number':
                        if n > 2 and ctx.tier == 'quick': continue
                        variants = list(itertools.product(['Integer', 'Float'], repeat=n)) if n <= 2 else [('Integer',) * n, ('Float',) * n, ('Integer', 'Float', 'Integer', 'Float')[:n]]
                        if n == 4 and k in ('Med', 'Avg'): variants = [('Float',) * 4]      # four Integer operands through the double detour: z3 does not finish (mixed bit-vector / floating point)
                    for vs in variants:
                        if ev == 'number': leaves = [Leaf('number', 'x%d' % i, vs[i], 'bv') for i in range(n)]
                        else: leaves = [Leaf(ev, 'x%d' % i) for i in range(n)]
                        if ev == 'i64': ref = lambda v, k=k: sem.i64_aggregate_ref(k, v)
                        elif ev == 'f64': ref = lambda v, k=k: sem.f64_aggregate_ref(k, v)
                        else: ref = lambda v, k=k: num_agg_ref(k, v)
                        lab = '%s/%s/%d%s/%s' % (ev, k, n, ('[' + ''.join(x[0] for x in vs) + ']') if vs else '', tag)
                        obs.append(EvalArm('C11', ev, k, (k, list(leaves)), ref, oc=oc, label=lab, limits={'timeout_ms': 60000}))
                # a failing argument in each position of a 2-argument list makes the aggregate Err
                for pos in (0, 1):
                    lf = Leaf(ev, 'x', 'Integer' if ev == 'number' else None, 'bv' if ev == 'number' else 'int')
                    args = [lf, lf]; args[pos] = failing_child(ev); args[1 - pos] = lf
                    obs.append(EvalArm('C11', ev, k, (k, args), lambda v: [(True, sem.ERR)], oc=oc, label='%s/%s/failing-arg%d/%s' % (ev, k, pos, tag)))
        # a failing argument in each position of a gcd / lcm list makes it Err, whatever the other arguments are
        for k in ('Gcd', 'Lcm'):
            for pos in (0, 1, 2):
                a = Leaf('i64', 'x'); b = Leaf('i64', 'y')
                args = [a, b]; args.insert(pos, failing_child('i64'))
                bound = z3.And(a.var > -16, a.var < 16, b.var > -16, b.var < 16)
                obs.append(EvalArm('C11', 'i64', k, (k, args), lambda v: [(True, sem.ERR)], oc=oc, assume=bound, label='i64/%s/failing-arg%d-of-3/%s' % (k, pos, tag), limits={'steps': 4000, 'timeout_ms': 60000}))
        # gcd / lcm: operands below 2^8 (quick) / 2^12 (thorough): Euclid needs at most 1.45*bits+2 iterations
        for k in ('Gcd', 'Lcm'):
            for n in (1, 2, 3):
                bits = {1: 8, 2: 8 if k == 'Gcd' else 5, 3: 3 if k == 'Gcd' else 2}[n] if ctx.tier == 'quick' else {1: 16, 2: 10 if k == 'Gcd' else 6, 3: 4 if k == 'Gcd' else 3}[n]
                leaves = [Leaf('i64', 'x%d' % i) for i in range(n)]
                bound = z3.And([z3.And(l.var > -(1 << bits), l.var < (1 << bits)) for l in leaves])
                ob = EvalArm('C11', 'i64', k, (k, list(leaves)), lambda v, k=k, bits=bits: gcd_ref(k, v, bits), oc=oc, assume=bound, label='i64/%s/%d/%s' % (k, n, tag),
                             limits={'steps': 4000, 'timeout_ms': 60000})
                if k == 'Lcm' and n > 1 and ((1 << (bits + 1)) - 1) ** n <= 20000:
                    ob.small_domain = [(l.var, -(1 << bits) + 1, (1 << bits) - 1) for l in leaves]      # fallback when the query over the whole box is not decided
                obs.append(ob)
    return obs


def euclid_ref(a, b, k):
    """reference Euclid on non-negative Int terms, unrolled k times (k >= 1.45*bits + 2 covers every input below 2^bits)"""
    if k == 0: return a
    return ite(b == 0, a, euclid_ref(b, trem(a, b), k - 1))


def iabs(x): return ite(x < 0, -x, x)


def gcd_ref(kind, vals, bits=8):
    k = int(1.45 * bits) + 3
    if kind == 'Gcd':
        g = 0
        for v in vals: g = euclid_ref(g, iabs(v), k)
        return [(True, sem.OKI(g))]
    l = 1
    for v in vals:
        g = euclid_ref(iabs(l), iabs(v), k)
        l = ite(b_or(l == 0, v == 0), 0, iabs(tdiv(l, ite(g == 0, 1, g)) * v))
    return [(sem.rng(l), sem.OKI(l)), (b_not(sem.rng(l)), sem.NOTOK)]


def run(ctx):
    results = run_obligations(ctx, obligations(ctx))
    bounds = dict(layer='E: ast::eval of Min/Max/Avg/Med (eval_i64, eval_f64, eval_number) on 1..3 (thorough 4) arbitrary arguments, of Gcd/Lcm on 1, 2, 3 operands below 2^8, 2^8 (lcm 2^5), 2^3 (lcm 2^2) (thorough 2^16, 2^10 (lcm 2^6), 2^4 (lcm 2^3)), plus a failing argument in each position',
                  configurations=['overflow-checks=on', 'overflow-checks=off'])
    outside = ['eval_decimal aggregates (Decimal arithmetic is abstract in this encoding; see C07)', 'argument lists longer than the bound; gcd/lcm operands beyond the bound',
               'empty argument lists are rejected or turned into 0 by the parser (parser layer, C03)', 'non-finite f64 arguments: left open by the statement ("finite")']
    return finish(ctx, results, bounds, 'symbolic execution of the aggregate arms of ast::eval from MIR on argument vectors with arbitrary values; z3 compares with the order-independent definition (ite-network min/max, sorting-network median, exact mean, gcd/lcm by their defining divisibility properties)', outside)
