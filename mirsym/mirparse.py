"""Parse rustc -Zunpretty=mir text into a small IR (functions, blocks, statements, terminators)."""
import re, sys, collections

class Fn:
    def __init__(self, name, sig):
        self.name = name; self.sig = sig; self.locals = {}; self.blocks = {}; self.nargs = 0; self.argnames = []
class Block:
    def __init__(self): self.stmts = []; self.term = None; self.cleanup = False

def split_top(s, sep=','):
    """split on sep at depth 0, quote aware"""
    out = []; depth = 0; cur = []; i = 0; n = len(s)
    while i < n:
        c = s[i]
        if c == '"':
            j = i + 1
            while j < n and s[j] != '"':
                if s[j] == '\\': j += 1
                j += 1
            cur.append(s[i:j+1]); i = j + 1; continue
        if c == "'" :
            # char literal or lifetime
            m = re.match(r"'(\\.|\\u\{[0-9a-fA-F]+\}|[^'\\])'", s[i:])
            if m:
                cur.append(m.group(0)); i += len(m.group(0)); continue
        if c in '([{': depth += 1
        elif c in ')]}': depth -= 1
        elif c == '<' : pass
        if c == sep and depth == 0:
            out.append(''.join(cur).strip()); cur = []
        else:
            cur.append(c)
        i += 1
    last = ''.join(cur).strip()
    if last: out.append(last)
    return out

def find_matching(s, i):
    """s[i] == '(' ; return index of matching ')' (quote aware)"""
    depth = 0; n = len(s)
    while i < n:
        c = s[i]
        if c == '"':
            j = i + 1
            while j < n and s[j] != '"':
                if s[j] == '\\': j += 1
                j += 1
            i = j + 1; continue
        if c == "'":
            m = re.match(r"'(\\.|\\u\{[0-9a-fA-F]+\}|[^'\\])'", s[i:])
            if m: i += len(m.group(0)); continue
        if c in '([{': depth += 1
        elif c in ')]}':
            depth -= 1
            if depth == 0: return i
        i += 1
    raise ValueError('unbalanced: ' + s)

# ---- places -------------------------------------------------------------
def parse_place(s):
    """returns (place, rest). place = ('local', n) | ('deref', p) | ('field', p, idx) | ('downcast', p, variant) | ('index', p, local)"""
    s = s.lstrip()
    if s.startswith('('):
        j = find_matching(s, 0)
        inner = s[1:j]; rest = s[j+1:]
        if inner.startswith('*'):
            p, r = parse_place(inner[1:]); assert r.strip() == '', (inner, r)
            node = ('deref', p)
        else:
            p, r = parse_place(inner)
            r = r.strip()
            if r.startswith('as '):
                node = ('downcast', p, r[3:].strip())
            elif r.startswith('.'):
                m = re.match(r'\.(\d+): ', r)
                assert m, (s, r)
                node = ('field', p, int(m.group(1)), r[m.end():].strip())
            else:
                raise ValueError('place? ' + s)
    else:
        m = re.match(r'_(\d+)', s)
        if not m: raise ValueError('place?? ' + s)
        node = ('local', int(m.group(1))); rest = s[m.end():]
    # postfix [..]
    while rest.startswith('['):
        j = rest.index(']')
        idx = rest[1:j]
        node = ('index', node, idx); rest = rest[j+1:]
    return node, rest

def last_group(s):
    """index of the '(' opening the parenthesised group that ends at the end of s (quote aware)"""
    depth = 0; i = 0; n = len(s); start = None
    while i < n:
        c = s[i]
        if c == '"':
            j = i + 1
            while j < n and s[j] != '"':
                if s[j] == '\\': j += 1
                j += 1
            i = j + 1; continue
        if c == "'":
            m = re.match(r"'(\\.|\\u\{[0-9a-fA-F]+\}|[^'\\])'", s[i:])
            if m: i += len(m.group(0)); continue
        if c in '([{':
            if depth == 0 and c == '(': start = i
            depth += 1
        elif c in ')]}':
            depth -= 1
        i += 1
    return start

def parse_operand(s):
    s = s.strip()
    if s.startswith('move '):
        p, r = parse_place(s[5:]); assert r.strip() == '', s; return ('move', p)
    if s.startswith('copy '):
        p, r = parse_place(s[5:]); assert r.strip() == '', s; return ('copy', p)
    if s.startswith('const '):
        return ('const', s[6:].strip())
    if re.match(r'^[A-Za-z_<{]', s): return ('fnitem', s)
    raise ValueError('operand? ' + s)

BINOPS = {'Add','Sub','Mul','Div','Rem','BitAnd','BitOr','BitXor','Shl','Shr','Eq','Lt','Le','Ne','Ge','Gt',
          'AddWithOverflow','SubWithOverflow','MulWithOverflow','Offset','Cmp','AddUnchecked','SubUnchecked','MulUnchecked','ShlUnchecked','ShrUnchecked'}
UNOPS = {'Not','Neg','PtrMetadata'}

def parse_rvalue(s):
    s = s.strip()
    if s.startswith('no_retag '): s = s[len('no_retag '):]
    if s.startswith('&raw '):
        m = re.match(r'&raw (const|mut) ', s); p, r = parse_place(s[m.end():]); return ('rawptr', p)
    if s.startswith('&mut '):
        p, r = parse_place(s[5:]); assert r.strip()=='', s; return ('ref', p, True)
    if s.startswith('&'):
        p, r = parse_place(s[1:]); assert r.strip()=='', s; return ('ref', p, False)
    m = re.match(r'(\w+)\(', s)
    if m and m.group(1) in BINOPS and s.endswith(')'):
        a = split_top(s[m.end():-1]); return ('binop', m.group(1), parse_operand(a[0]), parse_operand(a[1]))
    if m and m.group(1) in UNOPS and s.endswith(')'):
        return ('unop', m.group(1), parse_operand(s[m.end():-1]))
    if s.startswith('discriminant('):
        p, r = parse_place(s[len('discriminant('):-1]); return ('discr', p)
    if s.startswith('Len('):
        p, r = parse_place(s[4:-1]); return ('len', p)
    m = re.match(r'^((?:move|copy|const) .*) as (.*) \((\w+(?:\([^)]*\))?)\)$', s)
    if m:
        return ('cast', parse_operand(m.group(1)), m.group(2), m.group(3))
    if s.startswith(('move ', 'copy ', 'const ')):
        return ('use', parse_operand(s))
    if s.startswith('(') and s.endswith(')') :
        return ('tuple', [parse_operand(x) for x in split_top(s[1:-1])])
    if s.startswith('[') :
        if ';' in s: return ('repeat', s)
        return ('array', [parse_operand(x) for x in split_top(s[1:-1])])
    if s.startswith('{closure@') or s.startswith('{coroutine'):
        j = s.index('}')
        rest = s[j+1:].strip()
        caps = []
        if rest.startswith('{') and rest.endswith('}'):
            for f in split_top(rest[1:-1]):
                if ':' in f:
                    k, v = f.split(':', 1); caps.append(parse_operand(v))
        return ('closure', s[:j+1], caps)
    # ADT aggregate: Path::Variant(args) | Path::Variant | Path { f: v, .. }
    if s.endswith(')'):
        i = last_group(s)
        path = s[:i]; args = split_top(s[i+1:-1])
        return ('adt', path, [parse_operand(a) for a in args])
    if s.endswith('}'):
        i = s.index('{')
        path = s[:i].strip(); body = s[i+1:-1]
        fields = []
        for f in split_top(body):
            k, v = f.split(':', 1); fields.append((k.strip(), parse_operand(v)))
        return ('struct', path, fields)
    return ('adt', s, [])

def parse_targets(s):
    # "[return: bb1, unwind: bb2]" or "[0: bb1, otherwise: bb3]" or "bb3"
    s = s.strip()
    d = {}
    if s.startswith('['):
        for part in split_top(s[1:-1]):
            if ':' not in part:
                kk = part.split(' ', 1); d[kk[0]] = kk[1] if len(kk) > 1 else ''; continue
            k, v = part.split(':', 1); d[k.strip()] = v.strip()
    else:
        d['return'] = s
    return d

def parse_statement(line):
    s = line.strip()
    if s.endswith(';'): s = s[:-1]
    if s.startswith(('StorageLive(', 'StorageDead(', 'nop', 'FakeRead(', 'PlaceMention(', 'AscribeUserType(', 'Coverage', 'ConstEvalCounter', 'Retag(')):
        return ('nop',)
    if s.startswith('Deinit('): return ('nop',)
    if s.startswith('goto -> '): return ('goto', s[8:].strip())
    if s == 'return': return ('return',)
    if s == 'unreachable': return ('unreachable',)
    if s == 'resume' or s.startswith('resume') or s.startswith('unwind '): return ('resume',)
    if s.startswith('switchInt('):
        j = find_matching(s, len('switchInt'))
        op = parse_operand(s[len('switchInt('):j])
        t = parse_targets(s[j+1:].strip()[2:].strip())
        return ('switch', op, t)
    if s.startswith('drop('):
        j = find_matching(s, 4)
        p, _ = parse_place(s[5:j]); t = parse_targets(s[j+1:].strip()[2:].strip())
        return ('drop', p, t)
    if s.startswith('assert('):
        j = find_matching(s, 6)
        args = split_top(s[7:j])
        cond = args[0]; neg = False
        if cond.startswith('!'): neg = True; cond = cond[1:]
        t = parse_targets(s[j+1:].strip()[2:].strip())
        return ('assert', parse_operand(cond), not neg, args[1], t)
    m = re.match(r'discriminant\((.*)\) = (\d+)$', s)
    if m:
        p, _ = parse_place(m.group(1)); return ('setdiscr', p, int(m.group(2)))
    # assignment or call
    lhs, rest = parse_place(s)
    rest = rest.strip()
    assert rest.startswith('= '), line
    rhs = rest[2:]
    # call?  "... -> [return: bbN, unwind ...]" or "-> unwind continue"/"-> bbN"
    k = rhs.rfind(' -> ')
    if k >= 0 and (rhs[k+4:].startswith('[') or rhs[k+4:].startswith('bb') or rhs[k+4:].startswith('unwind')):
        callpart = rhs[:k]; t = parse_targets(rhs[k+4:]) if not rhs[k+4:].startswith('unwind') else {}
        # callee(args)
        assert callpart.endswith(')'), line
        i = last_group(callpart)
        callee = callpart[:i].strip(); args = [parse_operand(a) for a in split_top(callpart[i+1:-1])]
        return ('call', lhs, callee, args, t)
    return ('assign', lhs, parse_rvalue(rhs))

def parse_mir(text):
    fns = {}; promoted = {}; allocs = {}
    global consts, statics
    consts = {}; statics = {}
    cur = None; curblk = None
    lines = text.split('\n')
    i = 0; n = len(lines)
    while i < n:
        line = lines[i]; i += 1
        if not line.strip() or line.startswith('//'): continue
        if line.startswith('fn '):
            m = re.match(r'fn (.*?)\((.*)\) -> (.*) \{$', line)
            if not m:
                m = re.match(r'fn (.*?)\((.*)\) \{$', line)
            # name may contain parens in "<impl at ...>"; find the arg list = last top-level (...) before ' -> '
            hdr = line[3:-2]
            k = hdr.rfind(') -> ')
            if k < 0: k = hdr.rfind(')')
            # find the matching '(' for that ')'
            depth = 0
            for j in range(k, -1, -1):
                if hdr[j] == ')': depth += 1
                elif hdr[j] == '(':
                    depth -= 1
                    if depth == 0: break
            name = hdr[:j]; args = split_top(hdr[j+1:k])
            cur = Fn(name, hdr); cur.nargs = len(args)
            for a in args:
                mm = re.match(r'_(\d+): (.*)', a)
                if mm: cur.locals[int(mm.group(1))] = mm.group(2)
            ret = hdr[k+5:] if ') -> ' in hdr[k:] else '()'
            cur.locals[0] = ret
            fns.setdefault(name, []).append(cur); curblk = None
            continue
        if line.startswith('const ') and line.rstrip().endswith('= {') and 'promoted[' in line:
            m = re.match(r'const (.*)::promoted\[(\d+)\]: (.*) = \{$', line)
            cur = Fn(m.group(1) + '::promoted[' + m.group(2) + ']', line); cur.locals[0] = m.group(3)
            promoted[cur.name] = cur; curblk = None
            continue
        if line.startswith('const ') and 'promoted[' not in line:
            m = re.match(r'const (.*?): (.*?) = (.*);$', line)
            if m and not m.group(3).endswith('{'):
                consts[m.group(1)] = ('value', m.group(2), parse_operand(m.group(3)) if m.group(3).startswith(('const ', 'move ', 'copy ')) else ('const', m.group(3)))
                continue
            m = re.match(r'const (.*?): (.*) = \{$', line)
            if m:
                cur = Fn(m.group(1), line); cur.locals[0] = m.group(2)
                consts[m.group(1)] = ('body', m.group(2), cur); curblk = None
                continue
        if line.startswith('static '):
            m = re.match(r'static (mut )?(.*?): (.*) = \{$', line)
            if m:
                cur = Fn(m.group(2), line); cur.locals[0] = m.group(3)
                statics[m.group(2)] = (bool(m.group(1)), m.group(3), cur); curblk = None
                continue
        if line.startswith('alloc'):
            m = re.match(r'alloc(\d+) \(', line)
            if m:
                if line.rstrip().endswith('{}'):        # empty allocation printed on one line: `alloc233 (size: 0, align: 1) {}`
                    allocs[int(m.group(1))] = []; continue
                body = []
                while i < n and not lines[i].startswith('}'):
                    body.append(lines[i]); i += 1
                allocs[int(m.group(1))] = body
            continue
        if line.startswith('}'):
            cur = None; curblk = None; continue
        if cur is None: continue
        s = line.strip()
        m = re.match(r'let (mut )?_(\d+): (.*);$', s)
        if m: cur.locals[int(m.group(2))] = m.group(3); continue
        if s.startswith(('debug ', 'scope ', '}')) : continue
        m = re.match(r'bb(\d+)( \(cleanup\))?: \{$', s)
        if m:
            curblk = Block(); curblk.cleanup = bool(m.group(2)); cur.blocks['bb' + m.group(1)] = curblk; continue
        if curblk is None: continue
        try:
            st = parse_statement(s)
        except Exception:
            # a construct this parser has no rule for (e.g. a thread-local reference): kept verbatim; executing it is 'unsupported', scanning sees its text
            st = ('unparsed', s)
            if ' -> ' in s and ('return:' in s or 'unwind' in s): st = ('call', ('local', 0), 'UNPARSED ' + s[:200], [], {})
        if st[0] in ('goto','return','unreachable','resume','switch','drop','assert','call'):
            curblk.term = st
        elif st[0] != 'nop':
            curblk.stmts.append(st)
    return fns, promoted, allocs


consts = {}
statics = {}

if __name__ == '__main__':
    import time
    t = time.time()
    fns, promoted, allocs = parse_mir(open(sys.argv[1]).read())
    print('functions', sum(len(v) for v in fns.values()), 'promoted', len(promoted), 'allocs', len(allocs), 'in', round(time.time()-t, 2), 's')
    kinds = collections.Counter()
    for v in fns.values():
        for f in v:
            for b in f.blocks.values():
                for st in b.stmts:
                    kinds[st[0] + ':' + (st[2][0] if st[0]=='assign' else '')] += 1
                kinds['T:' + (b.term[0] if b.term else 'NONE')] += 1
    for k, c in kinds.most_common(): print(c, k)
