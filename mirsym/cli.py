"""command line entry: check <ID> [--tier quick|thorough] [--replay path] | setup"""
import argparse, importlib, json, os, sys, time


def main():
    ap = argparse.ArgumentParser()
    ap.add_argument('cmd', choices=['check', 'setup', 'replay'])
    ap.add_argument('prop', nargs='?')
    ap.add_argument('--tier', default=os.environ.get('VERIF_TIER', 'quick'))
    ap.add_argument('--replay')
    ap.add_argument('--jobs', type=int)
    a = ap.parse_args()
    seed = int(os.environ.get('VERIF_SEED', '0') or 0)
    from . import harness, front, native
    if a.cmd == 'setup':
        b = front.Build()
        t0 = time.time()
        for oc in (True, False): b.program(oc)
        for prof in ('dev', 'release'): native.build_runner(b, prof)
        print('setup ok', b.timings, round(time.time() - t0, 1))
        return 0
    if a.replay or a.cmd == 'replay':
        return replay(a.replay or a.prop)
    tier = a.tier if a.tier in ('quick', 'thorough') else 'quick'
    ctx = harness.Ctx(a.prop, tier, seed, a.jobs)
    try:
        mod = importlib.import_module('mirsym.props.' + a.prop.lower())
        rc = mod.run(ctx)
    except front.BuildError as ex:
        print('INCONCLUSIVE build failed: %s' % str(ex)[-2000:]); rc = 2
    finally:
        ctx.close()
    return rc


def replay(path):
    from . import harness, front, native
    d = json.load(open(path))
    b = front.Build()
    req = d.get('request') or ['AST', d['key'].split('|')[0], d['sexpr']]
    if req[0] == 'BUILD':
        okb, msg = native.cargo_build_subset(b, req[1].split(','))
        print('replay cargo build --no-default-features --features %s -> %s' % (req[1], 'ok' if okb else 'BUILD-FAILED ' + msg[:300]))
        b.cleanup()
        if not okb: print('VIOLATION property=%s replay=%s' % (d['property'], path))
        return 0 if okb else 1
    r = native.Runner(native.build_runner(b, d.get('profile', 'dev')))
    st, payload, us = r.request(*req)
    nat = st + ' ' + payload
    print('replay %s -> %s (recorded: %s)' % (req, nat, d.get('native')))
    r.close(); b.cleanup()
    same = nat.strip() == (d.get('native') or '').strip()
    if same: print('VIOLATION property=%s replay=%s' % (d['property'], path))
    return 1 if same else 0


if __name__ == '__main__':
    sys.exit(main())
