"""Native replay: build a small binary that links the real crate (mirror of the scratch copy with `mod` widened to
`pub mod`), and talk to it over a line protocol.  Every model the solver produces is confirmed here before it is
reported, and every explored path can be replayed to validate the interpreter against the implementation."""
import os, re, shutil, subprocess, select, time, struct, hashlib, fcntl

from . import front

EVALS = ['f64', 'i64', 'decimal', 'complex', 'number']
LEAF_TY = {'f64': 'f64', 'i64': 'i64', 'decimal': 'Decimal', 'complex': 'Complex<f64>', 'number': 'Number'}


def widen(text):
    """`mod x;` -> `pub mod x;` (the only edit made to the mirror)"""
    return re.sub(r'(?m)^(\s*)mod (\w+);', r'\1pub mod \2;', text)


def make_mirror(build, dest):
    shutil.copytree(build.scratch, dest, ignore=shutil.ignore_patterns('target', 'mirror', 'runner'))
    n = 0
    for d, _, files in os.walk(os.path.join(dest, 'src')):
        for f in files:
            if f in ('lib.rs', 'mod.rs'):
                p = os.path.join(d, f)
                t = open(p).read(); w = widen(t)
                # verify: removing the inserted `pub ` gives back the original
                assert re.sub(r'(?m)^(\s*)pub mod (\w+);', r'\1mod \2;', w) == re.sub(r'(?m)^(\s*)pub mod (\w+);', r'\1mod \2;', t), p
                if w != t: n += 1
                open(p, 'w').write(w)
    return n


def gen_eval_module(ev, enums, enum_fields):
    key = 'eval_%s::ast::Node' % ev
    variants = enums[key]; fields = enum_fields[key]
    leafvar = [v for v in variants if fields[v] and not any('Node' in t for t in fields[v])]
    b = []; s = []
    for v in variants:
        fl = fields[v]
        if v in leafvar:
            b.append('            "%s" => Node::%s(leaf(atom(&l[1]))),' % (v, v))
            s.append('            Node::%s(x) => format!("(%s {})", showv(x)),' % (v, v))
        elif len(fl) == 1 and 'Vec' in fl[0]:
            b.append('            "%s" => Node::%s(Arc::new(l[1..].iter().map(build).collect())),' % (v, v))
            s.append('            Node::%s(v) => format!("(%s{})", v.iter().map(|x| format!(" {}", show(x))).collect::<String>()),' % (v, v))
        elif all(t.startswith('Box<') for t in fl):
            args = ', '.join('Box::new(build(&l[%d]))' % (i + 1) for i in range(len(fl)))
            b.append('            "%s" => Node::%s(%s),' % (v, v, args))
            names = ', '.join('a%d' % i for i in range(len(fl)))
            fmt = ' '.join('{}' for _ in fl)
            s.append('            Node::%s(%s) => format!("(%s %s)", %s),' % (v, names, v, fmt, ', '.join('show(a%d)' % i for i in range(len(fl)))))
        else:
            raise ValueError('unexpected Node variant shape %s %s' % (v, fl))
    return MODULE_TMPL.replace('@EV@', ev).replace('@BUILD@', '\n'.join(b)).replace('@SHOW@', '\n'.join(s)).replace('@LEAF@', LEAF_CODE[ev])


LEAF_CODE = {
    'f64': '''    pub type Val = f64;
    pub fn leaf(s: &str) -> Val { crate::pf64(s) }
    pub fn showv(v: &Val) -> String { crate::sf64(*v) }''',
    'i64': '''    pub type Val = i64;
    pub fn leaf(s: &str) -> Val { s.parse::<i64>().unwrap() }
    pub fn showv(v: &Val) -> String { format!("{}", v) }''',
    'decimal': '''    pub type Val = rust_decimal::Decimal;
    pub fn leaf(s: &str) -> Val { crate::pdec(s) }
    pub fn showv(v: &Val) -> String { crate::sdec(v) }''',
    'complex': '''    pub type Val = num_complex::Complex<f64>;
    pub fn leaf(s: &str) -> Val { crate::pcx(s) }
    pub fn showv(v: &Val) -> String { crate::scx(v) }''',
    'number': '''    pub type Val = string_calculator::Number;
    pub fn leaf(s: &str) -> Val { crate::pnum(s) }
    pub fn showv(v: &Val) -> String { crate::snum(v) }''',
}

MODULE_TMPL = '''
pub mod ev_@EV@ {
    use crate::{Sx, atom};
    #[allow(unused_imports)] use std::sync::Arc;
    use string_calculator::eval_@EV@::ast::{Node, eval};
    use string_calculator::eval_@EV@::parser::Parser;
    use string_calculator::eval_@EV@::tokenizer::Tokenizer;
@LEAF@
    pub fn build(sx: &Sx) -> Node {
        let l = match sx { Sx::List(l) => l, _ => panic!("runner: expected list") };
        match atom(&l[0]) {
@BUILD@
            other => panic!("runner: unknown node {}", other),
        }
    }
    pub fn show(n: &Node) -> String {
        match n {
@SHOW@
        }
    }
    pub fn cmd(op: &str, a: &[&str]) -> String {
        match op {
            "EVAL" => match string_calculator::eval_@EV@(crate::unesc(a[1]), leaf(a[0])) { Ok(v) => format!("OK {}", showv(&v)), Err(e) => format!("ERR {}", crate::oneline(&format!("{:?}", e))) },
            "PARSE" => {
                let s = crate::unesc(a[1]);
                let r = match Parser::new(&s, Some(leaf(a[0]))) { Ok(mut p) => p.parse(), Err(e) => Err(e) };
                match r { Ok(n) => format!("OK {}", show(&n)), Err(e) => format!("ERR {}", crate::oneline(&format!("{:?}", e))) }
            }
            "TOK" => {
                let s = crate::unesc(a[0]);
                let mut t = Tokenizer::new(&s); let mut out = Vec::new();
                let limit: usize = a[1].parse().unwrap();
                for _ in 0..limit { match t.next() { Some(tok) => { let e = format!("{:?}", tok) == "Eof"; out.push(crate::tokfmt(&format!("{:?}", tok))); if e { break; } } None => { out.push("NONE".to_string()); break; } } }
                format!("OK {}", out.join("\\t"))
            }
            "AST" => { let sx = crate::parse_sx(a[0]); match eval(build(&sx)) { Ok(v) => format!("OK {}", showv(&v)), Err(e) => format!("ERR {}", crate::oneline(&format!("{}", e))) } }
            _ => "BAD op".to_string(),
        }
    }
}
'''

MAIN_TMPL = r'''// generated by /verif/mirsym/native.py - do not edit
use std::io::{self, BufRead, Write};
use std::panic;
use std::str::FromStr;

pub enum Sx { Atom(String), List(Vec<Sx>) }
pub fn atom(s: &Sx) -> &str { match s { Sx::Atom(a) => a.as_str(), _ => panic!("runner: expected atom") } }
pub fn parse_sx(s: &str) -> Sx {
    let toks: Vec<String> = s.replace('(', " ( ").replace(')', " ) ").split_whitespace().map(|x| x.to_string()).collect();
    let mut pos = 0; let r = parse_sx_at(&toks, &mut pos); r
}
fn parse_sx_at(t: &[String], pos: &mut usize) -> Sx {
    if t[*pos] == "(" { *pos += 1; let mut v = Vec::new(); while t[*pos] != ")" { v.push(parse_sx_at(t, pos)); } *pos += 1; Sx::List(v) }
    else { let a = t[*pos].clone(); *pos += 1; Sx::Atom(a) }
}
pub fn unesc(s: &str) -> String {
    // \uXXXXXX; escapes, everything else literal
    let mut out = String::new(); let cs: Vec<char> = s.chars().collect(); let mut i = 0;
    while i < cs.len() {
        if cs[i] == '\\' && i + 1 < cs.len() && cs[i + 1] == 'u' {
            let mut j = i + 2; let mut h = String::new();
            while cs[j] != ';' { h.push(cs[j]); j += 1; }
            out.push(char::from_u32(u32::from_str_radix(&h, 16).unwrap()).unwrap()); i = j + 1;
        } else { out.push(cs[i]); i += 1; }
    }
    out
}
pub fn oneline(s: &str) -> String { s.replace('\n', " ").replace('\t', " ") }
pub fn pf64(s: &str) -> f64 { f64::from_bits(u64::from_str_radix(s.trim_start_matches('x'), 16).unwrap()) }
pub fn sf64(v: f64) -> String { if v.is_nan() { "x7ff8000000000000".to_string() } else { format!("x{:016x}", v.to_bits()) } }
#[cfg(feature = "eval_decimal")]
pub fn pdec(s: &str) -> rust_decimal::Decimal {
    let s = s.trim_start_matches('d');
    if let Some(rest) = s.strip_prefix('m') { let p: Vec<&str> = rest.split('e').collect(); return rust_decimal::Decimal::from_i128_with_scale(p[0].parse::<i128>().unwrap(), p[1].parse::<u32>().unwrap()); }
    rust_decimal::Decimal::from_str(s).unwrap()
}
#[cfg(feature = "eval_decimal")]
pub fn sdec(v: &rust_decimal::Decimal) -> String { format!("dm{}e{}", v.mantissa(), v.scale()) }
#[cfg(feature = "eval_complex")]
pub fn pcx(s: &str) -> num_complex::Complex<f64> { let p: Vec<&str> = s.trim_start_matches('c').split(',').collect(); num_complex::Complex::new(pf64(p[0]), pf64(p[1])) }
#[cfg(feature = "eval_complex")]
pub fn scx(v: &num_complex::Complex<f64>) -> String { format!("c{},{}", sf64(v.re), sf64(v.im)) }
#[cfg(feature = "eval_number")]
pub fn pnum(s: &str) -> string_calculator::Number { if let Some(r) = s.strip_prefix('I') { string_calculator::Number::Integer(r.parse::<i64>().unwrap()) } else { string_calculator::Number::Float(pf64(&s[1..])) } }
#[cfg(feature = "eval_number")]
pub fn snum(v: &string_calculator::Number) -> String { match v { string_calculator::Number::Integer(i) => format!("I{}", i), string_calculator::Number::Float(f) => format!("F{}", sf64(*f)) } }
pub fn tokfmt(s: &str) -> String { oneline(s) }

@MODULES@

fn dec_cmd(op: &str, a: &[&str]) -> String {
    #[cfg(feature = "eval_decimal")]
    {
        use rust_decimal::prelude::*;
        use rust_decimal::MathematicalOps;
        let x = pdec(a[0]);
        let y = if a.len() > 1 { Some(pdec(a[1])) } else { None };
        let r: Option<Decimal> = match op {
            "add" => Some(x + y.unwrap()), "sub" => Some(x - y.unwrap()), "mul" => Some(x * y.unwrap()), "div" => Some(x / y.unwrap()), "rem" => Some(x % y.unwrap()),
            "neg" => Some(-x), "abs" => Some(x.abs()), "floor" => Some(x.floor()), "ceil" => Some(x.ceil()), "round" => Some(x.round()), "trunc" => Some(x.trunc()),
            "signum" => Some(x.signum()), "ln" => Some(x.ln()), "log10" => Some(x.log10()), "exp" => Some(x.exp()), "powd" => Some(x.powd(y.unwrap())),
            "sqrt" => x.sqrt(), "min" => Some(x.min(y.unwrap())), "max" => Some(x.max(y.unwrap())),
            _ => return "BAD dec op".to_string(),
        };
        return match r { Some(v) => format!("OK {}", sdec(&v)), None => "NONE".to_string() };
    }
    #[allow(unreachable_code)]
    { let _ = (op, a); "BAD no decimal".to_string() }
}

fn f64_cmd(meth: &str, a: &[&str]) -> String {
    let x = pf64(a[0]);
    let y = || pf64(a[1]);
    let r = match meth {
        "sin" => x.sin(), "cos" => x.cos(), "tan" => x.tan(), "sinh" => x.sinh(), "cosh" => x.cosh(), "tanh" => x.tanh(),
        "asin" => x.asin(), "acos" => x.acos(), "atan" => x.atan(), "asinh" => x.asinh(), "acosh" => x.acosh(), "atanh" => x.atanh(),
        "exp" => x.exp(), "exp2" => x.exp2(), "ln" => x.ln(), "log10" => x.log10(), "log2" => x.log2(), "sqrt" => x.sqrt(), "cbrt" => x.cbrt(),
        "exp_m1" => x.exp_m1(), "ln_1p" => x.ln_1p(), "to_degrees" => x.to_degrees(), "to_radians" => x.to_radians(), "recip" => x.recip(), "fract" => x.fract(),
        "powf" => x.powf(y()), "log" => x.log(y()), "atan2" => x.atan2(y()), "hypot" => x.hypot(y()), "fmod" => x % y(), "rem_euclid" => x.rem_euclid(y()),
        "div_euclid" => x.div_euclid(y()), "copysign" => x.copysign(y()),
        "powi" => x.powi(a[1].parse::<i32>().unwrap()),
        _ => return "BAD f64 op".to_string(),
    };
    format!("OK {}", sf64(r))
}

fn cx_cmd(meth: &str, a: &[&str]) -> String {
    #[cfg(feature = "eval_complex")]
    {
        use num_complex::Complex;
        if meth == "rdiv" { let r = pf64(a[0]) / Complex::new(pf64(a[1]), pf64(a[2])); return format!("OK {}", scx(&r)); }
        let x = Complex::new(pf64(a[0]), pf64(a[1]));
        let r: Complex<f64> = match meth {
            "sin" => x.sin(), "cos" => x.cos(), "tan" => x.tan(), "sinh" => x.sinh(), "cosh" => x.cosh(), "tanh" => x.tanh(),
            "asin" => x.asin(), "acos" => x.acos(), "atan" => x.atan(), "asinh" => x.asinh(), "acosh" => x.acosh(), "atanh" => x.atanh(),
            "sqrt" => x.sqrt(), "ln" => x.ln(), "exp" => x.exp(), "exp2" => x.exp2(), "cbrt" => x.cbrt(), "inv" => x.inv(), "log10" => x.log10(), "log2" => x.log2(),
            "powc" => x.powc(Complex::new(pf64(a[2]), pf64(a[3]))), "powf" => x.powf(pf64(a[2])), "log" => x.log(pf64(a[2])), "expf" => x.expf(pf64(a[2])),
            "norm" => return format!("OK {}", sf64(x.norm())), "arg" => return format!("OK {}", sf64(x.arg())), "norm_sqr" => return format!("OK {}", sf64(x.norm_sqr())),
            "l1_norm" => return format!("OK {}", sf64(x.l1_norm())),
            _ => return "BAD cx op".to_string(),
        };
        return format!("OK {}", scx(&r));
    }
    #[allow(unreachable_code)]
    { let _ = (meth, a); "BAD no complex".to_string() }
}

fn handle(line: &str) -> String {
    let parts: Vec<&str> = line.split('\t').collect();
    let op = parts[0];
    match op {
        "PING" => "OK pong".to_string(),
        #[cfg(feature = "eval_number")]
        "FROMF" => format!("OK {}", snum(&string_calculator::Number::from(pf64(parts[1])))),
        #[cfg(feature = "eval_number")]
        "FROMI" => format!("OK {}", snum(&string_calculator::Number::from(parts[1].parse::<i64>().unwrap()))),
        "DEC" => dec_cmd(parts[1], &parts[2..]),
        "F64" => f64_cmd(parts[1], &parts[2..]),
        "CX" => cx_cmd(parts[1], &parts[2..]),
        "EVAL" | "PARSE" | "TOK" | "AST" => {
            let ev = parts[1]; let a = &parts[2..];
            match ev {
@DISPATCH@
                _ => "BAD evaluator".to_string(),
            }
        }
        _ => "BAD command".to_string(),
    }
}

fn main() {
    panic::set_hook(Box::new(|_| {}));
    let stdin = io::stdin(); let stdout = io::stdout();
    for line in stdin.lock().lines() {
        let line = line.unwrap();
        let t0 = std::time::Instant::now();
        let r = panic::catch_unwind(|| handle(&line));
        let out = match r {
            Ok(s) => s,
            Err(e) => { let msg = if let Some(s) = e.downcast_ref::<&str>() { s.to_string() } else if let Some(s) = e.downcast_ref::<String>() { s.clone() } else { "?".to_string() }; format!("PANIC {}", oneline(&msg)) }
        };
        let mut o = stdout.lock();
        writeln!(o, "{}\t{}", t0.elapsed().as_micros(), out).unwrap(); o.flush().unwrap();
    }
}
'''

CARGO_TMPL = '''[package]
name = "runner"
version = "0.0.0"
edition = "2021"

[dependencies]
string_calculator = { path = "../mirror", default-features = false, features = [@FEATS@] }
num-complex = { version = "0.4", optional = true }
rust_decimal = { version = "1.35", default-features = false, features = ["maths"], optional = true }

[features]
@FEATDEFS@

[workspace]

[profile.dev]
debug = false
incremental = false

[profile.release]
opt-level = 3
overflow-checks = false
debug-assertions = false
incremental = false
'''


def build_runner(build, profile='dev', features=None):
    feats = front.ALL_FEATURES if features is None else sorted(features)
    tag = hashlib.sha256((build.hash + profile + ','.join(feats) + hashlib.sha256(open(__file__, 'rb').read()).hexdigest()).encode()).hexdigest()[:24]
    cdir = os.path.join(front.CACHE, 'runner')
    os.makedirs(cdir, exist_ok=True)
    binpath = os.path.join(cdir, 'runner-%s-%s' % (profile, tag))
    if os.path.exists(binpath): return binpath
    t0 = time.time()
    mirror = os.path.join(build.scratch, 'mirror'); rdir = os.path.join(build.scratch, 'runner-%d-%s' % (os.getpid(), tag[:8]))      # forked workers share the scratch copy: one directory per builder
    if not os.path.exists(mirror): make_mirror(build, mirror)
    shutil.rmtree(rdir, ignore_errors=True)
    os.makedirs(os.path.join(rdir, 'src'))
    tables = build.source_tables(feats)
    mods = []; disp = []
    for ev in EVALS:
        if 'eval_' + ev not in feats: continue
        mods.append(gen_eval_module(ev, tables['enums'], tables['enum_fields']))
        disp.append('                "%s" => ev_%s::cmd(op, a),' % (ev, ev))
    open(os.path.join(rdir, 'src', 'main.rs'), 'w').write(MAIN_TMPL.replace('@MODULES@', '\n'.join(mods)).replace('@DISPATCH@', '\n'.join(disp)))
    featdefs = []
    for f in front.ALL_FEATURES:
        extra = {'eval_decimal': '"dep:rust_decimal"', 'eval_complex': '"dep:num-complex"'}.get(f, '')
        featdefs.append('%s = [%s]' % (f, extra))
    featdefs.append('default = [%s]' % ', '.join('"%s"' % f for f in feats))
    open(os.path.join(rdir, 'Cargo.toml'), 'w').write(CARGO_TMPL.replace('@FEATS@', ', '.join('"%s"' % f for f in feats)).replace('@FEATDEFS@', '\n'.join(featdefs)))
    tdir = os.path.join(front.CACHE, 'target-runner')
    os.makedirs(tdir, exist_ok=True)
    cmd = ['cargo', 'build', '--offline'] + (['--release'] if profile == 'release' else [])
    with open(os.path.join(tdir, '.mirsym.lock'), 'w') as lk:
        fcntl.flock(lk, fcntl.LOCK_EX)
        if os.path.exists(binpath): return binpath
        r = subprocess.run(cmd, cwd=rdir, env=dict(front.ENV, CARGO_TARGET_DIR=tdir), capture_output=True, text=True)
        if r.returncode != 0:
            raise front.BuildError('runner build failed (%s):\n%s' % (profile, r.stderr[-6000:]))
        out = os.path.join(tdir, 'release' if profile == 'release' else 'debug', 'runner')
        tmp = binpath + '.tmp%d' % os.getpid()
        shutil.copy(out, tmp); os.replace(tmp, binpath)
    build.timings['runner-' + profile] = round(time.time() - t0, 2)
    # keep the cache small
    olds = sorted((os.path.getmtime(os.path.join(cdir, f)), f) for f in os.listdir(cdir))
    for _, f in olds[:-120]:
        try: os.remove(os.path.join(cdir, f))
        except OSError: pass
    return binpath


class Runner:
    """line-protocol client with a watchdog: a request that does not answer within `timeout` kills and restarts the binary"""

    def __init__(self, binpath, timeout=5.0):
        self.binpath = binpath; self.timeout = timeout; self.p = None; self.calls = 0; self.timeouts = 0
        self.start()

    def start(self):
        self.p = subprocess.Popen([self.binpath], stdin=subprocess.PIPE, stdout=subprocess.PIPE, stderr=subprocess.DEVNULL, bufsize=0)
        self.buf = b''

    def close(self):
        if self.p:
            try: self.p.kill(); self.p.wait()
            except Exception: pass
            self.p = None

    def request(self, *fields, timeout=None):
        """returns (status, payload, micros): status in OK ERR PANIC NONE BAD TIMEOUT"""
        self.calls += 1
        line = '\t'.join(fields) + '\n'
        assert '\n' not in line[:-1]
        if self.p is None or self.p.poll() is not None: self.start()
        self.p.stdin.write(line.encode('utf-8'))
        deadline = time.time() + (timeout or self.timeout)
        while b'\n' not in self.buf:
            left = deadline - time.time()
            if left <= 0:
                self.timeouts += 1; self.close(); return ('TIMEOUT', '', int((timeout or self.timeout) * 1e6))
            r, _, _ = select.select([self.p.stdout], [], [], left)
            if r:
                chunk = os.read(self.p.stdout.fileno(), 65536)
                if not chunk:
                    self.close(); return ('PANIC', 'runner process died (abort / stack overflow)', 0)
                self.buf += chunk
        out, self.buf = self.buf.split(b'\n', 1)
        out = out.decode('utf-8', 'replace')
        us, rest = out.split('\t', 1)
        st, _, payload = rest.partition(' ')
        return (st, payload, int(us))


def esc(s):
    """escape a Python string for the runner (tabs, newlines, backslashes and non-ASCII as \\uXXXX;)"""
    out = []
    for ch in s:
        o = ord(ch)
        if ch in '\t\n\r\\' or o < 32 or o > 126: out.append('\\u%x;' % o)
        else: out.append(ch)
    return ''.join(out)


def f64_bits_str(x):
    """Python float -> runner encoding"""
    if x != x: return 'x7ff8000000000000'
    return 'x%016x' % struct.unpack('<Q', struct.pack('<d', x))[0]


def bits_to_float(s):
    return struct.unpack('<d', struct.pack('<Q', int(s.lstrip('x'), 16)))[0]


def cargo_build_subset(build, features):
    """the repository's own toolchain on the scratch copy with exactly this feature subset: (succeeded, tail of the compiler output)"""
    tdir = os.path.join(front.CACHE, 'target-subset')
    os.makedirs(tdir, exist_ok=True)
    cmd = ['cargo', 'build', '--offline', '--lib', '--no-default-features', '--features', ','.join(sorted(features))]
    with open(os.path.join(tdir, '.mirsym.lock'), 'w') as lk:
        fcntl.flock(lk, fcntl.LOCK_EX)
        r = subprocess.run(cmd, cwd=build.scratch, env=dict(front.ENV, CARGO_TARGET_DIR=tdir), capture_output=True, text=True)
    errs = [l for l in r.stderr.splitlines() if l.startswith('error')]
    return r.returncode == 0, ('; '.join(errs[:3]) or r.stderr[-300:])
