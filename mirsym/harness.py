"""Check driver: obligations, judging explored paths against the reference, native confirmation, evidence."""
import json, os, sys, time, hashlib, collections, traceback, multiprocessing, random
import z3

from . import front, native, engine as eng_mod
from .values import *
from .concrete import Concretizer
from .reference import semantics as sem

VERIF = front.VERIF
EXIT_OK, EXIT_VIOLATION, EXIT_INCONCLUSIVE = 0, 1, 2


class Ctx:
    """everything one check invocation shares: the build of /repo's current tree, tier, seed, runners"""

    def __init__(self, prop, tier='quick', seed=0, jobs=None):
        self.prop = prop; self.tier = tier; self.seed = seed
        self.jobs = jobs or int(os.environ.get('VERIF_JOBS', '16'))
        self.t0 = time.time()
        self.build = front.Build()
        self._runners = {}
        self.results = []          # per-obligation result dicts
        self.build_failed = {}     # feature subset -> compiler output (a subset that does not build is C17's subject, not an engine failure)
        self.notes = []

    def prog(self, oc=True, features=None):
        fk = tuple(sorted(features)) if features else None
        if fk in self.build_failed: raise front.BuildError(self.build_failed[fk])
        try:
            return self.build.program(oc, features)
        except front.BuildError as ex:
            if fk is not None: self.build_failed[fk] = str(ex)
            raise

    def runner_path(self, profile, features=None):
        return native.build_runner(self.build, profile, features)

    def runner(self, profile='dev', features=None):
        key = (profile, tuple(sorted(features)) if features else None)
        if key not in self._runners:
            self._runners[key] = native.Runner(self.runner_path(profile, features))
        return self._runners[key]

    def close(self):
        for r in self._runners.values(): r.close()
        self.build.cleanup()


# -------------------------------------------------------------------------------------------------------------
# rendering of values in the runner's wire format
def render_value(ev, v, cz):
    if ev == 'i64': return str(cz.int(v))
    if ev == 'f64': return cz.f64_bits(v)
    if ev == 'number':
        if v[0] == 'sadt':
            d = cz.int(v[2]); name = sem.NUMBER_VARIANTS[d]
            v = adt(v[1], name, v[3][name])
        if v[2] == 'Integer': return 'I' + str(cz.int(v[3][0]))
        return 'F' + cz.f64_bits(v[3][0])
    if ev == 'complex': return 'c%s,%s' % (cz.f64_bits(v[1]), cz.f64_bits(v[2]))
    if ev == 'decimal': raise Unsupported('decimal values are abstract')
    raise KeyError(ev)


def parse_value(ev, s):
    """runner wire format -> value with concrete z3/python payload"""
    if ev == 'i64': return int(s)
    if ev == 'f64': return fp_from_bits(int(s[1:], 16))
    if ev == 'number':
        if s[0] == 'I': return adt(sem.NUM, 'Integer', [int(s[1:])])
        return adt(sem.NUM, 'Float', [fp_from_bits(int(s[2:], 16))])
    if ev == 'complex':
        a, b = s[1:].split(',')
        return ('cplx', fp_from_bits(int(a[1:], 16)), fp_from_bits(int(b[1:], 16)))
    raise KeyError(ev)


# -------------------------------------------------------------------------------------------------------------
class Leaf:
    """a symbolic operand of an E-layer tree"""

    def __init__(self, ev, name, variant=None, intmode='int'):
        self.ev = ev; self.name = name; self.variant = variant
        if ev == 'i64' or (ev == 'number' and variant == 'Integer'):
            self.var = z3.Int(name) if intmode == 'int' else z3.BitVec(name, 64)
            self.constraint = z3.And(self.var >= I64_MIN, self.var <= I64_MAX) if intmode == 'int' else True
        elif ev == 'f64' or (ev == 'number' and variant == 'Float'):
            self.var = z3.FP(name, F64); self.constraint = True
        elif ev == 'complex':
            self.var = ('cplx', z3.FP(name + '_re', F64), z3.FP(name + '_im', F64)); self.constraint = True
        else: raise KeyError(ev)

    def value(self):
        if self.ev == 'number': return adt(sem.NUM, self.variant, [self.var])
        return self.var

    def render(self, cz):
        return render_value(self.ev, self.value(), cz)


class IntF64Leaf(Leaf):
    """a double (or Float) operand that is an integer in lo..hi: value = (k as f64) for a symbolic k"""

    def __init__(self, ev, name, lo, hi, variant=None):
        self.ev = ev; self.name = name; self.variant = variant
        self.k = z3.BitVec(name + '_k', 64)
        self.var = z3.fpSignedToFP(RNE, self.k, F64)
        self.constraint = z3.And(self.k >= lo, self.k <= hi)

    def value(self):
        if self.ev == 'number': return adt(sem.NUM, self.variant, [self.var])
        return self.var


LEAF_NODE = {'f64': 'Number', 'i64': 'Number', 'decimal': 'Number', 'complex': 'Number', 'number': 'Num'}


def node_key(ev): return 'eval_%s::ast::Node' % ev


def build_tree(st, ev, shape):
    """shape: Leaf | (kind, child, ...) | (kind, [children]) for aggregates -> (Node value, sexpr render fn)"""
    nk = node_key(ev)
    if isinstance(shape, Leaf):
        return adt(nk, LEAF_NODE[ev], [shape.value()]), (lambda cz: '(%s %s)' % (LEAF_NODE[ev], shape.render(cz)))
    kind = shape[0]
    if len(shape) == 2 and isinstance(shape[1], list):
        subs = [build_tree(st, ev, c) for c in shape[1]]
        val = adt(nk, kind, [('arc', ('vec', tuple(s[0] for s in subs)))])
        return val, (lambda cz: '(%s%s)' % (kind, ''.join(' ' + s[1](cz) for s in subs)))
    subs = [build_tree(st, ev, c) for c in shape[1:]]
    val = adt(nk, kind, [('box', st.alloc(s[0])) for s in subs])
    return val, (lambda cz: '(%s %s)' % (kind, ' '.join(s[1](cz) for s in subs)))


def leaves_of(shape):
    if isinstance(shape, Leaf): return [shape]
    out = []
    for c in (shape[1] if len(shape) == 2 and isinstance(shape[1], list) else shape[1:]): out += leaves_of(c)
    return out


# -------------------------------------------------------------------------------------------------------------
class Finding:
    """a candidate violation found by the solver, to be confirmed natively"""

    def __init__(self, prop, key, what, request, profile, predicted, detail):
        self.prop = prop; self.key = key; self.what = what; self.request = request; self.profile = profile
        self.predicted = predicted; self.detail = detail

    def to_dict(self):
        return dict(property=self.prop, key=self.key, what=self.what, request=self.request, profile=self.profile,
                    predicted=self.predicted, detail=self.detail)


class Obligation:
    """base: explore one harness over one MIR configuration and judge every path"""

    def __init__(self, name):
        self.name = name

    def run(self, ctx):
        raise NotImplementedError


def impl_outcome(p, plain=False):
    if p.kind == 'panic': return ('panic', p.msg)
    if p.kind == 'limit': return ('limit', p.msg)
    v = p.value
    if plain: return ('ok', v)
    if v[0] == 'sadt': raise Unsupported('symbolic Result at top level')
    return (v[2].lower(), v[3][0])


class EvalArm(Obligation):
    """E layer: ast::eval on a tree of fixed shape with symbolic leaves vs the reference semantics"""

    def __init__(self, prop, ev, kind, shape, ref_fn, oc=True, assume=None, label=None, limits=None, violation_kinds=None, replay_cap=64):
        Obligation.__init__(self, label or '%s/%s/%s' % (ev, kind, 'dbg' if oc else 'rel'))
        self.prop = prop; self.ev = ev; self.kind = kind; self.shape = shape; self.ref_fn = ref_fn; self.oc = oc
        self.assume = assume; self.limits = limits or {}
        self.violation_kinds = violation_kinds       # None = all
        self.replay_cap = replay_cap

    def outcome_of(self, p, e):
        return impl_outcome(p, getattr(self, 'plain', False))

    def render(self, v, cz):
        return render_value(self.ev, v, cz)

    def setup(self, ctx, prog, e, st, runner):
        """returns (entry fn name, args, leaves, native_of(cz) -> (description, status, payload, micros))"""
        tree, sexpr = build_tree(st, self.ev, self.shape)
        leaves = leaves_of(self.shape)
        entry = prog.entry(self.ev, 'eval')

        def native_of(cz):
            sx = sexpr(cz)
            stt, payload, us = runner.request('AST', self.ev, sx)
            return sx, stt, payload, us
        return entry, [tree], leaves, native_of

    def run(self, ctx):
        prog = ctx.prog(self.oc, getattr(self, 'features', None))
        nk = prog.enum_key('number::Number')
        if nk: sem.set_number_variants(prog.enums[nk])
        e = eng_mod.Engine(prog, step_limit=self.limits.get('steps', 20000), timeout_ms=self.limits.get('timeout_ms', 30000), seed=ctx.seed)
        e.abstract_fdiv = bool(self.limits.get('abstract_fdiv'))
        e.deadline = time.time() + self.limits.get('max_wall_s', 600 if ctx.tier == 'quick' else 3600)
        # syntactic exploration (C02): every branch is taken without asking the solver - an over-approximation of the feasible paths, which is
        # sound for an upper bound on the work; the solver is asked only about paths that exceed the step budget
        e.no_feasibility = bool(self.limits.get('syntactic')); e.lazy = e.no_feasibility
        if 'branch_timeout_ms' in self.limits: e.branch_timeout_ms = self.limits['branch_timeout_ms']
        st = eng_mod.State()
        profile = 'dev' if self.oc else 'release'
        runner = ctx.runner(profile, getattr(self, 'features', None))
        entry, args, leaves, native_of = self.setup(ctx, prog, e, st, runner)
        for lf in leaves: e.assume(lf.constraint)
        if self.assume is not None: e.assume(self.assume)
        ref = self.ref_fn([lf.value() for lf in leaves])
        res = dict(name=self.name, paths=0, obligations=0, discharged=0, candidates=[], confirmed=[], inconclusive=[], replayed=0,
                   replay_mismatch=[], samples=[], fn=entry)

        def predicted_of(out, cz):
            if out[0] == 'panic': return 'PANIC'
            if out[0] == 'limit': return 'TIMEOUT'
            if out[0] == 'err': return 'ERR'
            return 'OK ' + self.render(out[1], cz)

        def uf_apps(terms):
            """all applications of uninterpreted functions (arity > 0) in the given terms"""
            seen = set(); out = []
            stack = [t for t in terms if is_sym(t)]
            while stack:
                t = stack.pop()
                if t.get_id() in seen: continue
                seen.add(t.get_id())
                if z3.is_app(t):
                    if t.decl().kind() == z3.Z3_OP_UNINTERPRETED and t.num_args() > 0 and t.decl().name().startswith(('uf_', 'R64', 'wrapped_pow', 'cx_')): out.append(t)
                    stack.extend(t.children())
            return out

        def concrete_model(extra_conds, tries=8):
            """a model of PC /\ extra whose path condition also holds with the *real* library functions.
            Uninterpreted functions make the solver's model only a candidate: each application is recomputed natively and
            asserted as a lemma (args = these values -> result = real value) until the model agrees with reality."""
            lemmas = []
            pcs = e.path_condition() + list(extra_conds)
            apps = uf_apps(pcs)
            for attempt in range(tries):
                r = e.check(*(list(extra_conds) + lemmas))
                if r != z3.sat: return None
                m = e.solver.model()
                cz = Concretizer(m, runner)
                if not apps: return m, cz
                okc = True
                try:
                    for c in pcs:
                        if not cz.bool(c): okc = False; break
                except Unsupported:
                    okc = True      # abstract sorts (decimal): cannot be recomputed, accept the solver's model
                if okc: return m, cz
                for app in apps:
                    try:
                        argv = [cz.ev(x) for x in app.children()]
                        real = cz.apply_uf(app.decl().name(), argv, app)
                        lemmas.append(z3.Implies(z3.And([x == v for x, v in zip(app.children(), argv)]), app == real))
                    except Exception:
                        pass
            return None

        spec_cache = {}

        def specialise(t, extra, budget=[400]):
            """resolve if-then-else conditions of a reference term that the path condition already decides, so that a
            reference aligned with the implementation becomes syntactically equal to it (no arithmetic reasoning needed)"""
            if not is_sym(t): return t
            k = t.get_id()
            if k in spec_cache: return spec_cache[k]
            r = t
            if z3.is_app(t) and t.num_args() > 0:
                if z3.is_app_of(t, z3.Z3_OP_ITE):
                    c = specialise(t.arg(0), extra)
                    dec = None
                    if z3.is_true(c): dec = True
                    elif z3.is_false(c): dec = False
                    elif budget[0] > 0:
                        budget[0] -= 1
                        e.solver.set('timeout', 3000)
                        try:
                            if e.check(*(extra + [z3.Not(c)])) == z3.unsat: dec = True
                            elif e.check(*(extra + [c])) == z3.unsat: dec = False
                        finally:
                            e.solver.set('timeout', self.limits.get('timeout_ms', 30000))
                    if dec is True: r = specialise(t.arg(1), extra)
                    elif dec is False: r = specialise(t.arg(2), extra)
                    else: r = z3.If(c, specialise(t.arg(1), extra), specialise(t.arg(2), extra))
                elif z3.is_or(t):
                    ch = []
                    for x in t.children():
                        y = z3.simplify(specialise(x, extra))
                        if z3.is_true(y): ch = None; break
                        ch.append(y)
                    r = z3.BoolVal(True) if ch is None else z3.Or(ch)
                else:
                    ch = [specialise(x, extra) for x in t.children()]
                    if any(a.get_id() != b.get_id() for a, b in zip(ch, t.children())):
                        try: r = t.decl()(*ch)
                        except Exception: r = t
            spec_cache[k] = r
            return r

        def confirm(out, refcase, what, extra_conds):
            """find a model of PC /\ extra_conds whose native run shows the violation; up to 6 alternatives"""
            blocked = []
            for attempt in range(6):
                cm = concrete_model(list(extra_conds) + blocked)
                if cm is None:
                    return None if attempt else 'nomodel'
                m, cz = cm
                try:
                    self._confirming = True
                    sx, stt, payload, us = native_of(cz)
                    pred = predicted_of(out, cz)
                except Unsupported as ex:
                    return 'unsupported: ' + str(ex)
                finally:
                    self._confirming = False
                if stt == 'NOWITNESS': return 'nowitness'
                nat = stt if stt in ('PANIC', 'ERR', 'TIMEOUT') else stt + ' ' + payload
                if pred != nat and not (pred == 'TIMEOUT' and stt == 'TIMEOUT') and not (pred.endswith('dec?') and nat.startswith('OK')):
                    res['replay_mismatch'].append(dict(sexpr=sx, predicted=pred, native=nat + (' ' + payload if stt == 'PANIC' else ''), obligation=self.name))
                    return 'mismatch'
                # does the native outcome violate the reference concretely?
                bad = False
                if out[0] in ('panic', 'limit'): bad = True
                elif getattr(self, 'witness_deviates', None): bad = True      # the witness was chosen because it departs natively from the reference operation
                elif refcase[0] == 'ok':
                    if out[0] == 'err': bad = True
                    else:
                        pv = refcase[1](out[1])          # predicted == native was just checked, so this is the native value
                        bad = not cz.bool(pv) if not isinstance(pv, bool) else not pv
                elif refcase[0] in ('err', 'notok'): bad = out[0] == 'ok'
                if bad:
                    return dict(sexpr=sx, native=nat + (' ' + payload if stt == 'PANIC' else ''), profile=profile, what=what, us=us)
                # not reproduced with real library functions: block this assignment of the leaves and retry
                blk = []
                for lf in leaves:
                    vars_ = [getattr(lf, 'k', lf.var)] if not isinstance(lf.var, tuple) else [lf.var[1], lf.var[2]]
                    for v_ in vars_:
                        if is_sym(v_): blk.append(v_ != m.eval(v_, model_completion=True))
                if not blk: return None
                blocked.append(z3.Or(blk))
            return None

        pooled = []

        def pool_confirm(out, refcase, what, extra_conds):
            """assign boundary values to the symbolic leaves and run the usual confirmation (at most once per obligation)"""
            import itertools
            if pooled: return None
            pooled.append(1)
            vars_ = []
            for lf in leaves:
                v_ = getattr(lf, 'k', lf.var)
                for x in ([v_] if not isinstance(lf.var, tuple) else [lf.var[1], lf.var[2]]):
                    if is_sym(x): vars_.append(x)
            if not vars_ or len(vars_) > 4: return None
            pools = []
            for v_ in vars_:
                if z3.is_fp(v_): pools.append([fp_const(x) for x in F64_POOL])
                elif z3.is_bv(v_): pools.append([z3.BitVecVal(x, v_.size()) for x in I64_POOL])
                elif z3.is_int(v_): pools.append([z3.IntVal(x) for x in I64_POOL])
                else: return None
            n = 0; t_end = time.time() + 120
            for combo in itertools.product(*pools):
                n += 1
                if n > 3000 or time.time() > t_end: break
                s2 = z3.Solver()
                for v_, x in zip(vars_, combo): s2.add(v_ == x)
                if s2.check() != z3.sat: continue
                m = s2.model(); cz = Concretizer(m, runner)
                try:
                    if not all(cz.bool(c) for c in e.path_condition() + [c for c in extra_conds if is_sym(c)]): continue
                    sx, stt, payload, us = native_of(cz)
                    pred = predicted_of(out, cz)
                except Exception:
                    continue
                nat = stt if stt in ('PANIC', 'ERR', 'TIMEOUT') else stt + ' ' + payload
                if pred != nat: continue
                pv = refcase[1](out[1])
                try:
                    bad = not cz.bool(pv) if not isinstance(pv, bool) else not pv
                except Exception:
                    continue
                if bad: return dict(sexpr=sx, native=nat, profile=profile, what=what, us=us)
            return None

        def on_path(p):
            res['paths'] += 1
            out = self.outcome_of(p, e)
            viol_here = False
            if self.limits.get('syntactic'):
                if out[0] != 'limit': return              # within the budget (whether or not the path is feasible)
                if not getattr(self, 'limit_is_violation', True):
                    res['truncated'] = res.get('truncated', 0) + 1; return
                def small_core_unsat():
                    """is a subset of the path condition made of its small conjuncts already unsatisfiable? (sound: a superset is then unsat too)"""
                    pcs = e.path_condition()
                    def size(t, cap=400):
                        n = 0; stack = [t]; seen = set()
                        while stack and n <= cap:
                            u = stack.pop()
                            if u.get_id() in seen: continue
                            seen.add(u.get_id()); n += 1; stack.extend(u.children())
                        return n
                    head = [c for c in pcs[:80] if is_sym(c) and size(c) <= 400]
                    tail = [c for c in pcs[-60:] if is_sym(c) and size(c) <= 400]
                    for sub in (head[:30] + tail[-3:], head + tail):
                        s2 = z3.Solver(); s2.set('timeout', 60000)
                        for c in sub: s2.add(c)
                        if s2.check() == z3.unsat: return True
                    return False
                # cheap attempt first: any model of the path, run natively under the watchdog (a non-terminating input shows at once)
                e.solver.set('timeout', 8000); e._cur_timeout_ms = 8000
                try:
                    rq = e.check()
                    if rq == z3.sat:
                        try:
                            cz0 = Concretizer(e.solver.model(), runner)
                            sx, stt, payload, us = native_of(cz0)
                            if stt == 'TIMEOUT':
                                res['confirmed'].append(dict(sexpr=sx, native='TIMEOUT (no answer within the 5 s watchdog)', profile=profile, what='step limit: ' + str(out[1]), us=us,
                                                             key='%s|%s|step limit|%s|' % (self.ev, self.kind, profile), obligation=self.name))
                                raise eng_mod.StopExploration()
                        except Unsupported:
                            pass
                finally:
                    e.solver.set('timeout', e.timeout_ms); e._cur_timeout_ms = e.timeout_ms
                if True:
                    # try the registered boundary witnesses natively before any heavier reasoning (a larger value of the same kind usually shows the loop)
                    w = pool_witness(leaves, native_of, runner)
                    if w is not None:
                        res['confirmed'].append(dict(sexpr=w[0], native='TIMEOUT (no answer within the 5 s watchdog)', profile=profile, what='step limit: ' + str(out[1]), us=w[3],
                                                     key='%s|%s|step limit|%s|' % (self.ev, self.kind, profile), obligation=self.name))
                        raise eng_mod.StopExploration()
                if small_core_unsat():
                    res['spurious'] = res.get('spurious', 0) + 1
                    return
                rq2 = e.check()
                if rq2 == z3.unknown:
                    # the solver cannot produce a model of the long path: try the registered boundary witnesses natively
                    w = pool_witness(leaves, native_of, runner)
                    if w is not None:
                        res['confirmed'].append(dict(sexpr=w[0], native='TIMEOUT (no answer within the 5 s watchdog)', profile=profile, what='step limit: ' + str(out[1]), us=w[3],
                                                     key='%s|%s|step limit|%s|' % (self.ev, self.kind, profile), obligation=self.name))
                        raise eng_mod.StopExploration()
                if rq2 == z3.sat:
                    # a feasible path that needs more counted steps than the budget allows, although this input still returns quickly natively:
                    # the work grows with the value; reported with the model as the witness (the count is the interpreter's, on the real MIR)
                    try:
                        czm = Concretizer(e.solver.model(), runner)
                        sx, stt, payload, us = native_of(czm)
                        if stt == 'NOWITNESS':
                            # abstract decimals: the long path exists only as long as every rust_decimal operation on it is assumed to succeed; no
                            # value of the boundary pool makes the compiled code run long (the real products overflow after a few steps)
                            res.setdefault('unconfirmed_abstract', []).append('%s: over-budget path without a native witness' % self.name)
                            res['spurious'] = res.get('spurious', 0) + 1
                            return
                        res['confirmed'].append(dict(sexpr=sx, native='%s after %d us natively; more than %d counted steps (crate calls + loop iterations) on this path' % (stt, us, e.step_limit), profile=profile,
                                                     what='step limit: ' + str(out[1]), us=us, key='%s|%s|step limit|%s|' % (self.ev, self.kind, profile), obligation=self.name))
                        raise eng_mod.StopExploration()
                    except Unsupported:
                        pass
                if rq2 != z3.sat:                   # an over-budget path must be really feasible to count
                    res['spurious'] = res.get('spurious', 0) + 1
                    if e.unknowns and len(res['inconclusive']) < 3 and str(e.stats.queries.get('unknown', 0)) != str(res.get('_unk0', 0)):
                        res['_unk0'] = e.stats.queries.get('unknown', 0)
                        res['inconclusive'].append('%s: solver could not decide whether an over-budget path is feasible' % self.name)
                    return
            if out[0] == 'limit' and not getattr(self, 'limit_is_violation', True):
                # exploration cut at the step bound (value-dependent loop; termination is C02's subject): replay the model natively so
                # that at least this representative is known not to panic, and report the truncation in the evidence
                res['truncated'] = res.get('truncated', 0) + 1
                if res['truncated'] <= 3:
                    try:
                        cm = concrete_model([])
                        if cm is not None:
                            sx, stt, payload, us = native_of(cm[1])
                            if stt in ('PANIC', 'TIMEOUT'):
                                res['confirmed'].append(dict(sexpr=sx, native=stt + ' ' + payload, profile=profile, what=('panic: ' if stt == 'PANIC' else 'does not terminate: ') + payload[:80], us=us,
                                                             key='%s|%s|%s|%s|%s' % (self.ev, self.kind, stt.lower(), profile, payload[:60]), obligation=self.name))
                    except Unsupported:
                        pass
                return
            for cond, oc_ in ref:
                if cond is not True and e.check(cond) != z3.sat: continue
                res['obligations'] += 1
                what = None; extra = [cond] if cond is not True else []
                if out[0] == 'panic': what = 'panic: ' + out[1]
                elif out[0] == 'limit': what = 'step limit: ' + out[1]
                elif oc_[0] == 'any': res['discharged'] += 1; continue
                elif out[0] == 'ok':
                    if oc_[0] == 'ok':
                        pv = oc_[1](out[1])
                        if is_sym(pv):
                            spec_cache.clear()
                            pv = z3.simplify(specialise(pv, extra))
                            if z3.is_true(pv): pv = True
                            elif z3.is_false(pv): pv = False
                        q = b_not(pv)
                        if getattr(self, 'small_domain', None) and q is not False and q is not True:
                            r = z3.unknown          # small finite operand box: decided case by case below (the query over the whole box is slow and seed dependent)
                        else:
                            r = e.check(*(extra + [q])) if q is not False else z3.unsat
                        if q is True: r = z3.sat
                        if r == z3.unsat: res['discharged'] += 1; continue
                        if r == z3.unknown and getattr(self, 'small_domain', None):
                            # operands range over a small finite box (the stated bound of this obligation): split the query into one query per
                            # operand assignment - each is decided by the solver on constants - instead of one query over the box
                            import itertools
                            dom = self.small_domain
                            verdict = z3.unsat; witness = None
                            conj = [c for c in e.path_condition() + extra + [q] if is_sym(c)]
                            if any(c is False for c in e.path_condition() + extra): conj = [z3.BoolVal(False)]
                            s2 = z3.Solver(); s2.set('timeout', 10000)
                            for combo in itertools.product(*[range(lo, hi + 1) for _, lo, hi in dom]):
                                subs = [(v_, z3.IntVal(x) if z3.is_int(v_) else z3.BitVecVal(x, v_.size())) for (v_, _, _), x in zip(dom, combo)]
                                asg = [v_ == x for (v_, _, _), x in zip(dom, combo)]
                                fs = []
                                dead = False
                                for c in conj:
                                    c2 = z3.simplify(z3.substitute(c, *subs))
                                    if z3.is_false(c2): dead = True; break
                                    if not z3.is_true(c2): fs.append(c2)
                                if dead: continue
                                if not fs: verdict = z3.sat; witness = asg; break
                                s2.push(); s2.add(*fs); rr = s2.check(); s2.pop()
                                e.stats.queries[str(rr)] += 1
                                if rr == z3.sat: verdict = z3.sat; witness = asg; break
                                if rr == z3.unknown: verdict = z3.unknown; break
                            res['case_splits'] = res.get('case_splits', 0) + 1
                            if verdict == z3.unsat: res['discharged'] += 1; continue
                            if verdict == z3.sat: r = z3.sat; extra = extra + witness
                        if r == z3.unknown:
                            # the solver gave up: boundary operand values on the compiled code may still show a violation (never a pass)
                            pc_ = pool_confirm(out, oc_, 'wrong value (expected %s)' % str(oc_[2])[:80], extra + ([q] if q is not True else []))
                            if isinstance(pc_, dict):
                                viol_here = True
                                pc_['key'] = '%s|%s|%s|%s|' % (self.ev, self.kind, 'wrong value', profile); pc_['obligation'] = self.name
                                res['confirmed'].append(pc_); continue
                            res['inconclusive'].append('%s: solver unknown on value query' % self.name); continue
                        what = 'wrong value (expected %s)' % str(oc_[2])[:80]; extra = extra + ([q] if q is not True else [])
                    else:
                        what = 'Ok returned where Err is required'
                elif out[0] == 'err':
                    if oc_[0] == 'ok': what = 'Err returned where the result is defined (expected %s)' % str(oc_[2])[:80]
                    else: res['discharged'] += 1; continue
                vk = what.split(':')[0].split(' (')[0]
                c = confirm(out, oc_, what, extra)
                if isinstance(c, dict):
                    viol_here = True
                    if self.limits.get('syntactic'): res['_stop'] = True
                    c['key'] = '%s|%s|%s|%s|%s' % (self.ev, self.kind, vk, profile, (out[1] if out[0] == 'panic' else '')[:90])
                    c['obligation'] = self.name
                    res['confirmed'].append(c)
                elif c is None:
                    res['inconclusive'].append('%s: candidate "%s" did not reproduce natively' % (self.name, what))
                elif c == 'mismatch':
                    pass
                elif c == 'nomodel':
                    res['discharged'] += 1
                elif c == 'nowitness':
                    # abstract decimals: the operation may fail according to the model, but no boundary value makes the real code do so
                    res.setdefault('unconfirmed_abstract', []).append('%s: %s' % (self.name, what))
                else:
                    res['inconclusive'].append('%s: %s' % (self.name, c))
            if res.get('_stop'): raise eng_mod.StopExploration()
            # validation replay of the path itself
            if not viol_here and res['replayed'] < self.replay_cap and p.kind != 'limit':
                try:
                    cm = concrete_model([])
                    if cm is None:
                        res['spurious'] = res.get('spurious', 0) + 1      # feasible only under the abstraction of a library function
                        return
                    m, cz = cm
                    sx, stt, payload, us = native_of(cz)
                    if stt == 'NOWITNESS':
                        res['spurious'] = res.get('spurious', 0) + 1; return
                    pred = predicted_of(out, cz)
                    if stt in ('PANIC', 'TIMEOUT') and pred not in ('PANIC', 'TIMEOUT'):
                        res['confirmed'].append(dict(sexpr=sx, native=stt + ' ' + payload, profile=profile, what=('panic: ' if stt == 'PANIC' else 'does not terminate: ') + payload[:80], us=us,
                                                     key='%s|%s|%s|%s|%s' % (self.ev, self.kind, stt.lower(), profile, payload[:60]), obligation=self.name))
                        return
                    nat = stt if stt in ('PANIC', 'ERR', 'TIMEOUT') else stt + ' ' + payload
                    res['replayed'] += 1
                    if pred != nat and not (pred.endswith('dec?') and nat.startswith('OK')):
                        res['replay_mismatch'].append(dict(sexpr=sx, predicted=pred, native=nat + (' ' + payload if stt == 'PANIC' else ''), obligation=self.name))
                    elif len(res['samples']) < 3:
                        res['samples'].append(dict(obligation=self.name, input=sx, outcome=nat, steps=p.steps))
                except Unsupported as ex:
                    res['inconclusive'].append('%s: replay unsupported: %s' % (self.name, ex))
        t0 = time.time()
        e.max_paths = self.limits.get('max_paths')
        try:
            e.explore(entry, args, on_path, state=st)
        except eng_mod.StopExploration:
            res['truncated'] = res.get('truncated', 0) + 1; res['path_budget_hit'] = True
        except Unsupported as ex:
            res['inconclusive'].append('%s: unsupported: %s' % (self.name, ex))
        except Exception as ex:
            res['inconclusive'].append('%s: internal error: %s' % (self.name, traceback.format_exc()[-600:]))
        res['wall_s'] = round(time.time() - t0, 3)
        res['queries'] = dict(e.stats.queries); res['solver_s'] = round(e.stats.solver_s, 3); res['transitions'] = e.stats.transitions
        res['fns'] = sorted(e.stats.fns); res['summaries'] = sorted(e.stats.summaries)
        res['unknowns'] = e.unknowns[:3]; res['assumed_feasible'] = e.assumed_feasible
        return res


# -------------------------------------------------------------------------------------------------------------
# running obligations in parallel, known findings, evidence
_CTX = None


def _worker(i):
    """run one obligation in a thread with a large stack (path exploration recurses once per symbolic branch)"""
    import threading
    box = []
    def target(): box.append(_worker_inner(i))
    threading.stack_size(1 << 29)
    sys.setrecursionlimit(200000)
    t = threading.Thread(target=target); t.start(); t.join()
    return box[0]


def _worker_inner(i):
    ob = _OBS[i]
    t0 = time.time()
    try:
        r = ob.run(_CTX)
        if os.environ.get('VERIF_PROGRESS'):
            with open(os.environ['VERIF_PROGRESS'], 'a') as f:
                f.write('%8.1f %6d %s %s\n' % (time.time() - t0, r.get('paths', 0), ob.name, 'INC' if r.get('inconclusive') else ''))
        return r
    except Exception:
        return dict(name=ob.name, paths=0, obligations=0, discharged=0, confirmed=[], inconclusive=['%s: crashed: %s' % (ob.name, traceback.format_exc()[-800:])],
                    replayed=0, replay_mismatch=[], samples=[], queries={}, solver_s=0, transitions=0, fns=[], summaries=[], wall_s=0)


def run_obligations(ctx, obs):
    global _CTX, _OBS
    _CTX = ctx; _OBS = obs
    # make sure everything shared is built before forking
    need_oc = sorted(set(getattr(o, 'oc', True) for o in obs))
    for oc in need_oc:
        ctx.prog(oc); ctx.runner_path('dev' if oc else 'release')
    for o in obs:
        if getattr(o, 'features', None):
            try:
                ctx.prog(getattr(o, 'oc', True), o.features); ctx.runner_path('dev' if getattr(o, 'oc', True) else 'release', o.features)
            except front.BuildError as ex:
                ctx.build_failed.setdefault(tuple(sorted(o.features)), str(ex))
    jobs = min(ctx.jobs, len(obs))
    if jobs <= 1 or os.environ.get('VERIF_SERIAL'):
        return [_worker(i) for i in range(len(obs))]
    mp = multiprocessing.get_context('fork')
    with mp.Pool(jobs) as pool:
        return pool.map(_worker, range(len(obs)), chunksize=1)


def load_known_findings():
    p = os.path.join(VERIF, 'known_findings.jsonl')
    kf = []; fixed = []
    if os.path.exists(p):
        for line in open(p):
            line = line.strip()
            if not line or line.startswith('#'): continue
            if line.startswith('fixed:'): fixed.append(line); continue
            kf.append(json.loads(line))
    return kf, fixed


def finish(ctx, results, bounds, level_text, outside, extra=None):
    """print verdict lines, write evidence, return the exit code"""
    prop = ctx.prop
    kf, fixed = load_known_findings()
    known_keys = {(k['property'], k['key']): k for k in kf}
    confirmed = [c for r in results for c in r['confirmed']]
    inconclusive = [m for r in results for m in r['inconclusive']]
    mismatches = [m for r in results for m in r['replay_mismatch']]
    new = []; seen_known = set()
    rdir = os.path.join(os.environ.get('VERIF_EVIDENCE_DIR') or VERIF, 'replays', prop)
    os.makedirs(rdir, exist_ok=True)
    for c in confirmed:
        k = (prop, c['key'])
        if k in known_keys:
            if k not in seen_known:
                seen_known.add(k)
                print('KNOWN-FINDING: property=%s %s' % (prop, known_keys[k].get('what', c['key'])))
            continue
        if any(c['key'] == n['key'] for n in new): continue
        new.append(c)
    for c in new:
        h = hashlib.sha256(json.dumps(c, sort_keys=True).encode()).hexdigest()[:12]
        path = os.path.join(rdir, h + '.json')
        json.dump(dict(property=prop, **c), open(path, 'w'), indent=1)
        print('VIOLATION property=%s replay=%s' % (prop, path))
        print('  %s: %s -> %s [%s]' % (c.get('obligation'), c.get('sexpr') or c.get('input'), c.get('native'), c.get('what')))
    for m in mismatches[:5]:
        print('ENGINE-MISMATCH %s' % json.dumps(m)[:400])
    for m in inconclusive[:8]:
        print('INCONCLUSIVE %s' % m[:400])
    wall = round(time.time() - ctx.t0, 2)
    paths = sum(r['paths'] for r in results)
    queries = collections.Counter()
    for r in results: queries.update(r.get('queries', {}))
    samples = [s for r in results for s in r['samples']][:12]
    if not samples: samples = [dict(note='no path sample recorded')]
    ev = dict(
        property_id=prop, tier=ctx.tier, seed=ctx.seed, level='model_checking',
        coverage=dict(
            states=max(paths, 1), transitions=max(sum(r.get('transitions', 0) for r in results), 1),
            traces_validated_against_impl=sum(r['replayed'] for r in results),
            samples=samples,
            obligations=sum(r['obligations'] for r in results), discharged=sum(r['discharged'] for r in results),
            harnesses=len(results), harness_names=[r['name'] for r in results][:200],
            functions_encoded=sorted(set(f for r in results for f in r.get('fns', [])))[:200],
            library_summaries_used=sorted(set(f for r in results for f in r.get('summaries', [])))[:200],
            mir_digest={('dbg' if k[0] else 'rel'): v.digest[:16] for k, v in ctx.build._programs.items()},
            solver_queries=dict(queries), solver_s=round(sum(r.get('solver_s', 0) for r in results), 2),
            bounds=bounds, outside_bounds=outside,
            engine_mismatches=len(mismatches), inconclusive=len(inconclusive),
            known_findings_reported=len(seen_known), violations_new=len(new),
            build_timings=ctx.build.timings, explanation=level_text,
        ),
        assumptions=[
            'library summaries in /verif/mirsym/summaries.py (std, libm as uninterpreted functions, rust_decimal and num_complex operations as uninterpreted functions with documented failure modes)',
            'rustc MIR of the scratch copy is what the compiler builds; MIR semantics as implemented in /verif/mirsym/engine.py, validated by replaying explored paths on the natively compiled crate',
            'z3 is sound on the queries it answers; unknown answers are reported as inconclusive',
        ],
        wall_s=wall, violations=len(new),
    )
    unc = [x for r in results for x in r.get('unconfirmed_abstract', [])]
    if unc:
        ev['coverage']['unconfirmed_candidates_on_abstract_decimals'] = dict(count=len(unc), examples=sorted(set(unc))[:10],
            note='paths on which a rust_decimal operation that can panic is reached unguarded according to the abstract model, but for which no value of the boundary pool makes the compiled code panic; reported, not counted as violations')
    ua = collections.Counter(x for r in results for x in r.get('unspellable_accepts', []))
    if ua:
        ev['coverage']['accepted_streams_no_string_spells'] = dict(count=sum(ua.values()), distinct=len(ua), examples=[k for k, _ in ua.most_common(8)],
                                                                   note='token streams the parser accepts although the reference rejects them, but which no input string can produce (the tokenizer never yields them); reported, not a violation')
    tr = sum(r.get('truncated', 0) for r in results)
    if tr: ev['coverage']['paths_cut_at_step_bound'] = dict(count=tr, note='paths through value-dependent loops that were cut at the step bound of the obligation (their termination is the subject of C02); a model of each of the first such paths per obligation was replayed natively')
    af = sum(r.get('assumed_feasible', 0) for r in results)
    if af: ev['coverage']['branches_kept_on_solver_timeout'] = af
    if extra: ev['coverage'].update(extra)
    evdir = os.environ.get('VERIF_EVIDENCE_DIR') or os.path.join(VERIF, 'evidence')
    os.makedirs(evdir, exist_ok=True)
    json.dump(ev, open(os.path.join(evdir, prop + '.json'), 'w'), indent=1, default=str)
    print('%s tier=%s harnesses=%d paths=%d obligations=%d discharged=%d replayed=%d new_violations=%d known=%d inconclusive=%d mismatches=%d wall=%.1fs' % (
        prop, ctx.tier, len(results), paths, ev['coverage']['obligations'], ev['coverage']['discharged'], ev['coverage']['traces_validated_against_impl'],
        len(new), len(seen_known), len(inconclusive), len(mismatches), wall))
    if new: return EXIT_VIOLATION
    if inconclusive or mismatches: return EXIT_INCONCLUSIVE
    return EXIT_OK


class FnCall(EvalArm):
    """a crate function called directly on symbolic arguments (returns a plain value)"""
    plain = True

    def __init__(self, prop, label, ev, entry_pat, leaves, ref_fn, native_req, oc=True, assume=None, limits=None):
        EvalArm.__init__(self, prop, ev, label, None, ref_fn, oc=oc, assume=assume, label=label, limits=limits)
        self.entry_pat = entry_pat; self._leaves = leaves; self.native_req = native_req

    def setup(self, ctx, prog, e, st, runner):
        if self.entry_pat.startswith('resolve:'):
            entry = prog.resolve(self.entry_pat[8:])
            if entry is None: raise Unsupported('cannot resolve ' + self.entry_pat)
        else: entry = prog.find_fn(self.entry_pat)

        def native_of(cz):
            req = self.native_req(cz)
            stt, payload, us = runner.request(*req)
            return ' '.join(req), stt, payload, us
        return entry, [lf.var for lf in self._leaves], self._leaves, native_of


def uf_apps_of(terms):
    """all applications of uninterpreted library functions (arity > 0) in the given terms"""
    seen = set(); out = []
    stack = [t for t in terms if is_sym(t)]
    while stack:
        t = stack.pop()
        if t.get_id() in seen: continue
        seen.add(t.get_id())
        if z3.is_app(t):
            if t.decl().kind() == z3.Z3_OP_UNINTERPRETED and t.num_args() > 0 and t.decl().name().startswith(('uf_', 'R64', 'wrapped_pow', 'cx_')): out.append(t)
            stack.extend(t.children())
    return out


def refined_model(e, runner, extra_conds, tries=8):
    """a model of the engine's path condition and extra_conds in which every uninterpreted library function has its real value
    (each application is recomputed natively and asserted as a lemma until the model agrees); None when none is found"""
    lemmas = []
    pcs = e.path_condition() + [c for c in extra_conds if is_sym(c)]
    apps = uf_apps_of(pcs)
    for attempt in range(tries):
        if e.check(*(list(extra_conds) + lemmas)) != z3.sat: return None
        m = e.solver.model()
        cz = Concretizer(m, runner)
        if not apps: return m, cz
        okc = True
        try:
            for c in pcs:
                if not cz.bool(c): okc = False; break
        except Unsupported:
            okc = True
        if okc: return m, cz
        for app in apps:
            try:
                argv = [cz.ev(x) for x in app.children()]
                real = cz.apply_uf(app.decl().name(), argv, app)
                lemmas.append(z3.Implies(z3.And([x == v for x, v in zip(app.children(), argv)]), app == real))
            except Exception:
                pass
    return None


F64_POOL = [0.0, 1.0, -1.0, 2.0, 0.5, 1.1, 5.0, 100.0, 1e18, 1e308, float('inf'), float('-inf'), float('nan'), -0.0, 1e-300, 171.0, 1e10]
I64_POOL = [0, 1, -1, 2, 5, 63, 64, 100, 10 ** 18, I64_MAX, I64_MIN, 21, 1000000]


def pool_witness(leaves, native_of, runner):
    """try boundary values for the symbolic leaves until the native run hits the watchdog; returns native_of's tuple or None"""
    import itertools
    vars_ = []
    for lf in leaves:
        v = getattr(lf, 'val', None)
        v = lf.var if v is None else v
        if isinstance(v, tuple) and v and v[0] == 'adt': v = v[3][0]
        if isinstance(v, tuple): continue
        if is_sym(v): vars_.append(v)
    if not vars_ or len(vars_) > 3: return None
    pools = []
    for v in vars_:
        if z3.is_fp(v): pools.append([fp_const(x) for x in F64_POOL])
        elif z3.is_bv(v): pools.append([z3.BitVecVal(x, v.size()) for x in I64_POOL])
        elif z3.is_int(v): pools.append([z3.IntVal(x) for x in I64_POOL])
        else: return None
    n = 0
    for combo in itertools.product(*pools):
        n += 1
        if n > 300: break
        s2 = z3.Solver()
        for v, x in zip(vars_, combo): s2.add(v == x)
        if s2.check() != z3.sat: continue
        try:
            r = native_of(Concretizer(s2.model(), runner))
        except Exception:
            continue
        if r[1] == 'TIMEOUT': return r
    return None
