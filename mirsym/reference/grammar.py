"""Reference parser: the grammar of C03 / C04 / C12 as an operator-precedence specification over token sequences.

Precedence, loosest to tightest (C04):  |  <  &  <  << >>  <  binary + -  <  * / % and postfix deg, rad  <  ^ and superscript
exponents  <  prefix + -  <  postfix ! and function application.  Equal precedence groups left to right (^ included).
Juxtaposition (C12): a number literal, a bracketed group, a call or a factorial directly followed by `(`, a floor/ceil
bracket or a function name (after a group, call or factorial also by a number literal) is the product A*(R), R parsed above
the multiplicative level (so it takes ^, superscripts and ! but no explicit * / %).  Constants, `@`, superscripts, deg and
rad neither start nor continue a product.  The whole input must be consumed (C03).

Tokens are (kind, payload) with the kind names of the implementation's Token enum; trees are nested tuples
(NodeKind, child, ...) with leaves ('Number', value) and aggregates (NodeKind, [children])."""
from . import lexer as lx

LEVELS = {'Bar': 1, 'Ampersand': 2, 'LeftShift': 3, 'RightShift': 3, 'Add': 4, 'Subtract': 4,
          'Multiply': 5, 'Divide': 5, 'Modulo': 5, 'DegToRad': 5, 'RadToDeg': 5, 'Caret': 6, 'Superscript': 6, 'ExclamationMark': 8}
NEGATIVE = 7
MULTIPLICATIVE = 5
BIN_NODE = {'Bar': 'Or', 'Ampersand': 'And', 'LeftShift': 'LeftShift', 'RightShift': 'RightShift', 'Add': 'Add', 'Subtract': 'Subtract',
            'Multiply': 'Multiply', 'Divide': 'Divide', 'Modulo': 'Modulo', 'Caret': 'Pow'}
FN_NODE = {'Mod': 'Modulo'}          # every other function builds the node of its own name
OPEN = {'LeftParen': ('RightParen', None), 'LeftFloor': ('RightFloor', 'Floor'), 'LeftCeiling': ('RightCeiling', 'Ceil')}


class Reject(Exception):
    def __init__(self, pos, why=''):
        Exception.__init__(self, why); self.pos = pos


class Consts:
    """values the parser inserts (per evaluator): placeholder, pi, e, deg and rad factors, avg() of nothing"""
    def __init__(self, placeholder, pi, e, deg, rad, zero):
        self.placeholder = placeholder; self.pi = pi; self.e = e; self.deg = deg; self.rad = rad; self.zero = zero


def parse(tokens, consts):
    """tokens: list of (kind, payload) WITHOUT the final Eof -> tree; raises Reject(position of the offending token)"""
    toks = list(tokens) + [('Eof', None)]
    pos = [0]

    def peek(): return toks[pos[0]]
    def advance(): pos[0] += 1

    def expect(kind):
        if peek()[0] != kind: raise Reject(pos[0], 'expected ' + kind)
        advance()

    def starts_product(after_num):
        k = peek()[0]
        if k in ('LeftParen', 'LeftFloor', 'LeftCeiling', 'ExplicitFunction'): return True
        return k == 'Num' and not after_num

    def juxt(node, after_num=False):
        if starts_product(after_num):
            right = expr(MULTIPLICATIVE)
            return ('Multiply', node, right)
        return node

    def call(fname):
        advance()
        expect('LeftParen')
        ar = lx.ARITY[fname]
        args = []
        if ar is None:
            if peek()[0] == 'RightParen':
                advance()
            else:
                while True:
                    args.append(expr(0))
                    if peek()[0] == 'Comma': advance(); continue
                    expect('RightParen'); break
            if not args:
                if fname == 'Avg': return ('Number', consts.zero)
                raise Reject(pos[0] - 1, 'empty argument list')
            return (FN_NODE.get(fname, fname), args)
        for i in range(ar):
            args.append(expr(0))
            if i < ar - 1: expect('Comma')
        expect('RightParen')
        return (FN_NODE.get(fname, fname),) + tuple(args)

    def prefix():
        kind, payload = peek()
        if kind == 'Subtract':
            advance(); return ('Negative', expr(NEGATIVE))
        if kind == 'Add':
            advance(); return expr(NEGATIVE)
        if kind == 'Num':
            advance(); return juxt(('Number', payload), after_num=True)
        if kind == 'Ans': advance(); return ('Number', consts.placeholder)
        if kind == 'Pi': advance(); return ('Number', consts.pi)
        if kind == 'E': advance(); return ('Number', consts.e)
        if kind in OPEN:
            close, wrap = OPEN[kind]
            advance(); e = expr(0); expect(close)
            return juxt((wrap, e) if wrap else e)
        if kind == 'ExplicitFunction':
            return juxt(call(payload))
        raise Reject(pos[0], 'operand expected')

    def expr(level):
        left = prefix()
        while True:
            kind, payload = peek()
            lv = LEVELS.get(kind)
            if lv is None or lv <= level: break
            if kind in BIN_NODE:
                advance(); right = expr(lv); left = (BIN_NODE[kind], left, right)
            elif kind == 'DegToRad':
                advance(); left = ('Multiply', left, ('Number', consts.deg))
            elif kind == 'RadToDeg':
                advance(); left = ('Multiply', left, ('Number', consts.rad))
            elif kind == 'Superscript':
                advance(); left = ('Pow', left, ('Number', payload))
            elif kind == 'ExclamationMark':
                advance(); left = juxt(('Factorial', left))
            else: break
        return left

    tree = expr(0)
    if peek()[0] != 'Eof': raise Reject(pos[0], 'trailing input')
    return tree


def vocabulary(token_kinds, fn_kinds):
    """all (kind, payload-class) pairs of an evaluator's token enum, Eof excluded"""
    v = []
    for k in token_kinds:
        if k == 'Eof': continue
        if k == 'ExplicitFunction': v += [('ExplicitFunction', f) for f in fn_kinds]
        else: v.append((k, None))
    return v


def accepted(vocab, K, consts, payload_of, pos_vocab=None):
    """all token sequences of exactly K tokens that the reference accepts, with their trees.
    payload_of(i, kind) gives the payload term of a Num / Superscript token at position i.
    Depth-first over the vocabulary, pruning prefixes that are already dead (the parser is predictive: it reports the
    first token that cannot continue any sentence)."""
    out = []

    def rec(prefix):
        n = len(prefix)
        try:
            tree = parse(prefix, consts)
            if n == K: out.append((tuple((k, p if k == 'ExplicitFunction' else None) for k, p in prefix), tree))
        except Reject as r:
            if r.pos < n: return          # dead prefix
        if n == K: return
        for kind, f in (pos_vocab[n] if pos_vocab and pos_vocab[n] is not None else vocab):
            payload = f if kind == 'ExplicitFunction' else (payload_of(n, kind) if kind in ('Num', 'Superscript') else None)
            rec(prefix + [(kind, payload)])
    rec([])
    return out
