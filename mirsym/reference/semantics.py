"""Reference semantics of the AST node operations, written from the property statements (C05-C11, C18), not from
the implementation.  For an evaluator and a node kind, `node_ref` maps the values of the evaluated children to a
list of cases [(condition, outcome)], outcome one of

  OKP(pred, show)   the evaluator must return Ok(v) with pred(v) true   (OK(value): v must be `value`)
  ERR               the evaluator must return Err
  NOTOK             Ok(anything) would be a fabricated value (Err expected; anything that is not Ok is accepted)
  ANY               the statements leave it open: any non-panicking outcome

The conditions of the cases are exhaustive.  Where a statement is silent the reference says ANY: the checks then
assert panic-freedom and termination only (this is the main guard against false alarms)."""
import z3

from ..values import *
from ..summaries import f64_method, f_fmod, fadd, fsub, fmul, fdiv, PI, E_

ERR = ('err',)
NOTOK = ('notok',)
ANY = ('any',)


def OKP(pred, show=None): return ('ok', pred, show)


def same_f64(a, b): return a == b          # SMT equality on FP terms: same bits, all NaNs identified


def same_int(a, b):
    if is_bv(a) or is_bv(b): return i_cmp('Eq', a, b, 'i64')
    return a == b


def OKF(v): return OKP(lambda x: same_f64(x, v), v)
def OKI(v): return OKP(lambda x: same_int(x, v), v)


def rng(x): return in_range(x, 'i64')


def cases(*cs):
    out = []
    for c, o in cs:
        if c is False: continue
        out.append((c, o))
    return out


def first_match(*cs):
    """cases in priority order -> exclusive conditions"""
    out = []; prev = []
    for c, o in cs:
        cond = b_and(c, *[b_not(p) for p in prev])
        if cond is not False: out.append((cond, o))
        prev.append(c)
    return out


FACT = [1]
for _i in range(1, 26): FACT.append(FACT[-1] * _i)


# ---------------------------------------------------------------------------------------------------------
# eval_i64  (C06, C10, C11)
def pow_exact_cases(a, e, limit=64):
    """[(cond, exact a**e as Int term)] for e in 0..limit plus the periodic cases of |a| <= 1"""
    out = []
    for k in range(0, limit + 1):
        v = 1
        for _ in range(k): v = v * a
        out.append((e == k if is_sym(e) else (e == k), v))
    return out


def i64_ref(kind, v):
    a = v[0] if v else None; b = v[1] if len(v) > 1 else None
    if kind == 'Number': return [(True, OKI(a))]
    if kind in ('Add', 'Subtract', 'Multiply'):
        x = i_exact({'Add': 'Add', 'Subtract': 'Sub', 'Multiply': 'Mul'}[kind], a, b)
        return cases((rng(x), OKI(x)), (b_not(rng(x)), ERR))
    if kind == 'Divide':
        return first_match((b == 0, ERR), (b_and(a == I64_MIN, b == -1), NOTOK), (True, OKI(tdiv(a, b))))
    if kind == 'Modulo':
        return first_match((b == 0, ERR), (b_and(a == I64_MIN, b == -1), ANY), (True, OKI(trem(a, b))))
    if kind == 'Negative': return cases((a != I64_MIN, OKI(-a)), (a == I64_MIN, ERR))
    if kind == 'Abs': return cases((a != I64_MIN, OKI(ite(a < 0, -a, a))), (a == I64_MIN, ERR))
    if kind == 'Sign': return [(True, OKI(ite(a > 0, 1, ite(a == 0, 0, -1))))]
    if kind == 'And': return [(True, OKI(i_bit('BitAnd', a, b, 'i64')))]
    if kind == 'Or': return [(True, OKI(i_bit('BitOr', a, b, 'i64')))]
    if kind == 'LeftShift':
        inr = b_and(b >= 0, b <= 63)
        cs = [(b_not(inr), ERR)]
        for k in range(64):
            x = a * (1 << k)
            cs.append((b_and(b == k, rng(x)), OKI(x)))
            cs.append((b_and(b == k, b_not(rng(x))), ANY))
        return cases(*cs)
    if kind == 'RightShift':
        inr = b_and(b >= 0, b <= 63)
        cs = [(b_not(inr), ERR)]
        for k in range(64):
            # floor division by 2^k
            cs.append((b == k, OKI(a / (1 << k) if is_sym(a) else a // (1 << k))))
        return cases(*cs)
    if kind == 'Pow':
        ine = b_and(b >= 0, b <= 4294967295)
        cs = [(b_not(ine), ANY)]
        for cond, x in pow_exact_cases(a, b):
            cs.append((b_and(cond, rng(x)), OKI(x)))
            cs.append((b_and(cond, b_not(rng(x))), ERR))
        big = b_and(ine, b > 64)
        small = b_and(a >= -1, a <= 1)
        par = ite(a == -1, ite(b % 2 == 1, -1, 1), a)
        cs.append((b_and(big, small), OKI(par)))
        cs.append((b_and(big, b_not(small)), ERR))
        return cases(*cs)
    if kind == 'Factorial':
        cs = [(a < 0, ANY)]
        for n in range(0, 21): cs.append((a == n, OKI(FACT[n])))
        cs.append((a > 20, ERR))
        return cases(*cs)
    if kind == 'Sqrt':
        # C10: an integer within 1 of the real root when the operand is below 2^53 (bit-vector operand: exact i64 -> f64)
        return [(True, ANY)]      # bit-vector multiplier + FP sqrt query does not finish: not decided (DESIGN.md section 7)
        lim = z3.BitVecVal(1 << 53, 64)
        def pred(x):
            if not is_bv(x): x = to_bv(x, 64)
            one = z3.BitVecVal(1, 64)
            return z3.And(x >= 0, x < z3.BitVecVal(1 << 27, 64), z3.Or(x == 0, (x - one) * (x - one) <= a), a <= (x + one) * (x + one))
        return first_match((a < 0, ANY), (a >= lim, ANY), (True, OKP(pred, 'isqrt(a) +- 1')))
    if kind in ('Root', 'Ln', 'Lb', 'Log', 'Exp', 'Exp2'):
        return [(True, ANY)]
    raise KeyError(kind)


def i64_aggregate_ref(kind, vals):
    """vals: list of evaluated arguments (Int terms), len >= 1"""
    n = len(vals)
    if kind == 'Min':
        r = vals[0]
        for x in vals[1:]: r = ite(x < r, x, r)
        return [(True, OKI(r))]
    if kind == 'Max':
        r = vals[0]
        for x in vals[1:]: r = ite(x > r, x, r)
        return [(True, OKI(r))]
    if kind == 'Avg':
        s = vals[0]
        for x in vals[1:]: s = s + x
        # the mean truncated toward zero; sums beyond i64 are left open by the statement (ANY) except that they must not panic
        return cases((rng(s), OKI(tdiv(s, n))), (b_not(rng(s)), ANY))
    if kind == 'Med':
        srt = sort_network(vals, lambda x, y: x <= y, ite)
        if n % 2 == 1: return [(True, OKI(srt[n // 2]))]
        s = srt[n // 2] + srt[n // 2 - 1]
        return cases((rng(s), OKI(tdiv(s, 2))), (b_not(rng(s)), ANY))
    raise KeyError(kind)


def sort_network(vals, le, ite_f):
    """sorted copy of vals as terms (odd-even transposition sort network)"""
    v = list(vals); n = len(v)
    for rnd in range(n):
        for i in range(rnd % 2, n - 1, 2):
            c = le(v[i], v[i + 1])
            lo = ite_f(c, v[i], v[i + 1]); hi = ite_f(c, v[i + 1], v[i])
            v[i], v[i + 1] = lo, hi
    return v


# ---------------------------------------------------------------------------------------------------------
# eval_f64  (C05, C10)
def f64_ref(kind, v):
    a = v[0] if v else None; b = v[1] if len(v) > 1 else None
    U1 = {'Sin': 'sin', 'Cos': 'cos', 'Tan': 'tan', 'Sinh': 'sinh', 'Cosh': 'cosh', 'Tanh': 'tanh', 'Asin': 'asin', 'Acos': 'acos', 'Atan': 'atan',
          'Arsinh': 'asinh', 'Arcosh': 'acosh', 'Artanh': 'atanh', 'Ln': 'ln', 'Exp': 'exp', 'Exp2': 'exp2',
          'Abs': 'abs', 'Floor': 'floor', 'Ceil': 'ceil', 'Round': 'round', 'Truncate': 'trunc', 'Sqrt': 'sqrt'}
    if kind == 'Number': return [(True, OKF(a))]
    if kind == 'Add': return [(True, OKF(fadd(a, b)))]
    if kind == 'Subtract': return [(True, OKF(fsub(a, b)))]
    if kind == 'Multiply': return [(True, OKF(fmul(a, b)))]
    if kind == 'Divide': return [(True, OKF(fdiv(a, b)))]
    if kind == 'Modulo': return [(True, OKF(f_fmod(a, b)))]
    if kind == 'Negative': return [(True, OKF(fsimp(z3.fpNeg(a), a)))]
    if kind == 'Pow': return [(True, OKF(f64_method('powf', [a, b])))]
    if kind in U1: return [(True, OKF(f64_method(U1[kind], [a])))]
    if kind == 'Lb': return [(True, OKF(f64_method('log', [a, fp_const(2.0)])))]
    if kind == 'Log': return [(True, OKF(f64_method('log', [a, b])))]
    if kind == 'Atan2': return [(True, OKF(f64_method('atan2', [a, b])))]
    if kind == 'Root':      # root(n, x) = x^(1/n)
        return [(True, OKF(f64_method('powf', [b, fdiv(fp_const(1.0), a)])))]
    if kind == 'Sign':
        # sgn with sgn(0) = 0 (either zero accepted); NaN left open
        one = fp_const(1.0); mone = fp_const(-1.0); zero = fp_const(0.0)
        return first_match((z3.fpIsNaN(a), ANY), (z3.fpGT(a, zero), OKF(one)), (z3.fpLT(a, zero), OKF(mone)),
                           (True, OKP(lambda x: z3.fpIsZero(x), '0')))
    if kind == 'Factorial':
        cs = []
        for n in range(0, 23): cs.append((a == fp_const(float(n)), OKF(fp_const(float(FACT[n])))))
        cs.append((True, ANY))
        return first_match(*cs)
    if kind in ('LambertW', 'ILog'): return [(True, ANY)]
    raise KeyError(kind)


def f64_aggregate_ref(kind, vals):
    n = len(vals)
    nonan = b_and(*[z3.Not(z3.fpIsNaN(x)) for x in vals])
    finite = b_and(*[z3.Not(z3.Or(z3.fpIsNaN(x), z3.fpIsInf(x))) for x in vals])
    if kind in ('Min', 'Max'):
        r = vals[0]
        for x in vals[1:]:
            r = z3.If(z3.fpLT(x, r) if kind == 'Min' else z3.fpGT(x, r), x, r)
        # equal under == (so that -0.0 / +0.0 ties are not over-specified)
        return cases((finite, OKP(lambda x: z3.Or(x == r, z3.fpEQ(x, r)), r)), (b_not(finite), ANY))
    if kind == 'Avg':
        s = vals[0]
        for x in vals[1:]: s = fadd(s, x)
        # sum in argument order divided by n: the statement fixes the mean, not the summation order; accept the
        # left-to-right sum starting from 0.0 or from the first argument (identical for finite values except -0.0)
        r = fdiv(s, fp_const(float(n)))
        s0 = fp_const(0.0)
        for x in vals: s0 = fadd(s0, x)
        r0 = fdiv(s0, fp_const(float(n)))
        return cases((finite, OKP(lambda x: z3.Or(x == r0, x == r, z3.fpEQ(x, r)), r)), (b_not(finite), ANY))
    if kind == 'Med':
        srt = sort_network(vals, lambda x, y: z3.fpLEQ(x, y), lambda c, x, y: z3.If(c, x, y))
        if n % 2 == 1: r = srt[n // 2]; r2 = r
        else:
            r = fdiv(fadd(srt[n // 2], srt[n // 2 - 1]), fp_const(2.0)); r2 = fdiv(fadd(srt[n // 2 - 1], srt[n // 2]), fp_const(2.0))
        return cases((finite, OKP(lambda x: z3.Or(x == r, x == r2, z3.fpEQ(x, r)), r)), (b_not(finite), ANY))
    raise KeyError(kind)


# ---------------------------------------------------------------------------------------------------------
# eval_number (C09, C10, C18)
NUM = 'eval_number::number::Number'


def num_int(i): return adt(NUM, 'Integer', [i])
def num_float(f): return adt(NUM, 'Float', [f])


def num_to_f64(x):
    """double value of a Number value (concrete variant)"""
    return int_to_f64(x[3][0], 'i64') if x[2] == 'Integer' else x[3][0]


def lift(pred, fast=None):
    """predicate on a Number with a concrete variant -> predicate on any Number value (symbolic variant included).
    `fast(v)`: the same predicate on the value Number::from(v), stated through the contract of the conversion that C18
    establishes (Integer(n) with n == v iff v is integral and in range, else Float(v)); used when the implementation's
    result is literally `Number::from(v)` so that the conversion is not re-proved inside every query."""
    def p(x):
        if x[0] == 'sadt':
            if fast is not None and len(x) > 4 and x[4].get('from') is not None: return fast(x[4]['from'])
            fi = pred(adt(x[1], 'Integer', x[3]['Integer'])) if 'Integer' in x[3] else False
            ff = pred(adt(x[1], 'Float', x[3]['Float'])) if 'Float' in x[3] else False
            return z3.If(x[2] == NUMBER_VARIANTS.index('Integer'), as_z3(fi), as_z3(ff))
        return pred(x)
    return p


def integral_in_range(v):
    lo = fp_const(-9223372036854775808.0); hi = fp_const(9223372036854775808.0)
    return z3.And(z3.Not(z3.fpIsNaN(v)), z3.Not(z3.fpIsInf(v)), z3.fpEQ(z3.fpRoundToIntegral(RTZ, v), v), z3.fpGEQ(v, lo), z3.fpLT(v, hi))


def as_z3(b): return z3.BoolVal(b) if isinstance(b, bool) else b


NUMBER_VARIANTS = ['Float', 'Integer']        # overwritten from the source tables by the harness (set_number_variants)


def set_number_variants(vs):
    NUMBER_VARIANTS[:] = vs


def OKN_int(i): return OKP(lift(lambda x: x[2] == 'Integer' and same_int(x[3][0], i), lambda v: z3.And(integral_in_range(v), same_int(f64_to_int(v, 'i64'), i))), ('Integer', i))
def OKN_float(f): return OKP(lift(lambda x: x[2] == 'Float' and same_f64(x[3][0], f), lambda v: z3.And(z3.Not(integral_in_range(v)), same_f64(v, f))), ('Float', f))


def OKN_num(f):
    """'has the numeric value of the double f': Float(f) or the Integer equal to f"""
    def pred(x):
        if x[2] == 'Float': return same_f64(x[3][0], f)
        return z3.fpEQ(int_to_f64(x[3][0], 'i64'), f)
    return OKP(lift(pred, lambda v: same_f64(v, f)), ('numeric', f))


def number_from_f64_ref(v):
    """C18: Integer(n) exactly when v is finite, integral and within the i64 range, and then n equals v; else Float(v) unchanged"""
    lo = fp_const(-9223372036854775808.0); hi = fp_const(9223372036854775808.0)
    integral = z3.And(z3.Not(z3.fpIsNaN(v)), z3.Not(z3.fpIsInf(v)), z3.fpEQ(z3.fpRoundToIntegral(RTZ, v), v), z3.fpGEQ(v, lo), z3.fpLT(v, hi))
    def pi(x):
        if x[2] != 'Integer': return False
        return z3.fpEQ(int_to_f64(x[3][0], 'i64'), v) if True else False
    def pi_exact(x):
        if x[2] != 'Integer': return False
        n = x[3][0]
        # n equals v numerically: v is integral and in range, so v -> i64 is exact
        return same_int(n, f64_to_int(v, 'i64'))
    return cases((integral, OKP(lift(pi_exact), 'Integer(v)')), (z3.Not(integral), OKN_float(v)))


def number_ref(kind, v):
    """v: list of Number values with concrete variants"""
    a = v[0] if v else None; b = v[1] if len(v) > 1 else None
    ai = a is not None and a[2] == 'Integer'; bi = b is not None and b[2] == 'Integer'
    if kind == 'Num':
        return [(True, OKP(lift(lambda x: x[2] == a[2] and (same_int(x[3][0], a[3][0]) if ai else same_f64(x[3][0], a[3][0]))), a))]
    fa = num_to_f64(a) if a is not None else None; fb = num_to_f64(b) if b is not None else None
    if kind in ('Add', 'Subtract', 'Multiply'):
        op = {'Add': 'Add', 'Subtract': 'Sub', 'Multiply': 'Mul'}[kind]
        fop = {'Add': fadd, 'Subtract': fsub, 'Multiply': fmul}[kind]
        if ai and bi:
            r, ov = i_arith(op, a[3][0], b[3][0], 'i64')
            return cases((b_not(ov), OKN_int(r)), (ov, OKN_float(fop(fa, fb))))
        return [(True, OKN_num(fop(fa, fb)))]
    if kind == 'Divide':
        if ai and bi:
            x, y = a[3][0], b[3][0]
            zero = i_cmp('Eq', y, 0, 'i64')
            ovf = b_and(i_cmp('Eq', x, I64_MIN, 'i64'), i_cmp('Eq', y, -1, 'i64'))
            def exact(): return i_cmp('Eq', i_rem(x, y, 'i64'), 0, 'i64')
            return first_match((zero, OKN_float(fdiv(fa, fb))), (ovf, OKN_float(fdiv(fa, fb))),
                               (exact(), OKN_int(i_div(x, y, 'i64'))), (True, OKN_float(fdiv(fa, fb))))
        return [(True, OKN_num(fdiv(fa, fb)))]
    if kind == 'Modulo':
        if ai and bi:
            x, y = a[3][0], b[3][0]
            zero = i_cmp('Eq', y, 0, 'i64')
            ovf = b_and(i_cmp('Eq', x, I64_MIN, 'i64'), i_cmp('Eq', y, -1, 'i64'))
            return first_match((zero, OKN_num(f_fmod(fa, fb))), (ovf, OKP(lift(lambda r: num_is_zero(r)), '0')), (True, OKN_int(i_rem(x, y, 'i64'))))
        return [(True, OKN_num(f_fmod(fa, fb)))]
    if kind == 'Negative':
        if ai:
            x = a[3][0]; mn = i_cmp('Eq', x, I64_MIN, 'i64')
            return cases((b_not(mn), OKN_int(i_neg(x, 'i64'))), (mn, OKN_float(fsimp(z3.fpNeg(fa), fa))))
        return [(True, OKN_num(fsimp(z3.fpNeg(fa), fa)))]
    if kind == 'Abs':
        if ai:
            x = a[3][0]; mn = i_cmp('Eq', x, I64_MIN, 'i64')
            from ..summaries import ite_int
            return cases((b_not(mn), OKN_int(ite_int(i_cmp('Lt', x, 0, 'i64'), i_neg(x, 'i64'), x))), (mn, OKN_float(z3.fpAbs(fa))))
        return [(True, OKN_num(z3.fpAbs(fa)))]
    if kind == 'Sign':
        if ai:
            from ..summaries import ite_int
            x = a[3][0]
            one, zero, mone = (z3.BitVecVal(1, 64), z3.BitVecVal(0, 64), z3.BitVecVal(-1, 64)) if is_bv(x) else (1, 0, -1)
            sg = ite_int(i_cmp('Gt', x, 0, 'i64'), one, ite_int(i_cmp('Eq', x, 0, 'i64'), zero, mone))
            return [(True, OKN_int(sg))]
        zero = fp_const(0.0)
        return first_match((z3.fpIsNaN(fa), ANY), (z3.fpGT(fa, zero), OKP(lift(lambda r: num_value_is(r, 1)), '1')),
                           (z3.fpLT(fa, zero), OKP(lift(lambda r: num_value_is(r, -1)), '-1')), (True, OKP(lift(lambda r: num_is_zero(r)), '0')))
    if kind == 'Pow':
        if ai and bi:
            x, y = a[3][0], b[3][0]
            if is_bv(x) or is_bv(y): raise Unsupported('number Pow reference needs Int-mode integers')
            ine = b_and(y >= 0, y <= 4294967295)
            cs = [(b_not(ine), ANY)]
            for cond, p in pow_exact_cases(x, y):
                cs.append((b_and(cond, rng(p)), OKN_int(p)))
                cs.append((b_and(cond, b_not(rng(p))), OKN_num(f64_method('powf', [fa, fb]))))
            big = b_and(ine, y > 64); small = b_and(x >= -1, x <= 1)
            par = ite(x == -1, ite(y % 2 == 1, -1, 1), x)
            cs.append((b_and(big, small), OKN_int(par)))
            cs.append((b_and(big, b_not(small)), OKN_num(f64_method('powf', [fa, fb]))))
            return cases(*cs)
        return [(True, OKN_num(f64_method('powf', [fa, fb])))]
    if kind in ('Floor', 'Ceil', 'Round', 'Truncate'):
        if ai: return [(True, OKN_int(a[3][0]))]
        rm = {'Floor': RTN, 'Ceil': RTP, 'Round': RNA, 'Truncate': RTZ}[kind]
        r = z3.fpRoundToIntegral(rm, fa)
        lo = fp_const(-9223372036854775808.0); hi = fp_const(9223372036854775808.0)
        inr = z3.And(z3.fpGEQ(r, lo), z3.fpLT(r, hi))
        return cases((inr, OKP(lift(lambda x: x[2] == 'Integer' and same_int(x[3][0], f64_to_int(r, 'i64')),
                                    lambda v: z3.And(integral_in_range(v), same_int(f64_to_int(v, 'i64'), f64_to_int(r, 'i64')))), ('Integer', r))),
                     (z3.Not(inr), OKN_num(r)))
    if kind == 'Factorial':
        if ai:
            x = to_int(a[3][0])
            cs = [(x < 0, ANY)]
            for n in range(0, 21): cs.append((x == n, OKN_int(FACT[n])))
            cs.append((x > 20, ANY))
            return cases(*cs)
        return [(True, ANY)]
    U1 = {'Sin': 'sin', 'Cos': 'cos', 'Tan': 'tan', 'Sinh': 'sinh', 'Cosh': 'cosh', 'Tanh': 'tanh', 'Asin': 'asin', 'Acos': 'acos', 'Atan': 'atan',
          'Arsinh': 'asinh', 'Arcosh': 'acosh', 'Artanh': 'atanh', 'Ln': 'ln', 'Exp': 'exp', 'Exp2': 'exp2', 'Sqrt': 'sqrt'}
    if kind in U1: return [(True, OKN_num(f64_method(U1[kind], [fa])))]
    if kind == 'Lb': return [(True, OKN_num(f64_method('log', [fa, fp_const(2.0)])))]
    if kind == 'Log': return [(True, OKN_num(f64_method('log', [fa, fb])))]
    if kind == 'Atan2': return [(True, OKN_num(f64_method('atan2', [fa, fb])))]
    if kind == 'Root': return [(True, OKN_num(f64_method('powf', [fb, fdiv(fp_const(1.0), fa)])))]
    if kind in ('LambertW', 'ILog'): return [(True, ANY)]
    raise KeyError(kind)


def num_is_zero(r):
    if r[2] == 'Integer': return same_int(r[3][0], 0)
    return z3.fpIsZero(r[3][0])


def num_value_is(r, k):
    """Number r has the integer value k (Integer(k) or Float(k.0))"""
    if r[2] == 'Integer': return same_int(r[3][0], k)
    if is_conc_int(k): return z3.fpEQ(r[3][0], fp_const(float(k)))
    return z3.fpEQ(r[3][0], z3.fpToFP(RNE, z3.ToReal(k), F64))
