"""Reference lexer, written from the README vocabulary and the property statements (C03, C08, C10, C13, C19).

`lex_cases(ev, chars)` gives, for the string `chars` (a list of code points, concrete or z3 Int terms) the first token
as a list of exclusive, exhaustive cases [(condition, outcome)]:
   ('eof',)                               the string is empty
   ('none',)                              no token of this evaluator starts here (the evaluator must answer Err)
   ('tok', kind, payload, consumed)       kind = name of the token; payload describes the value of a literal, a
                                          superscript run or the function; consumed = number of characters taken
"""
import z3

from ..values import *
from ..summaries import digits_value

EVALS = ['f64', 'i64', 'decimal', 'complex', 'number']

ALL = set(EVALS)
NOT_I64 = ALL - {'i64'}
NOT_CX = ALL - {'complex'}
REALS = {'f64', 'number', 'decimal'}
TRIG = {'f64', 'number', 'complex'}

# single characters -> (token name, evaluators that have it)
SINGLE = {
    '+': ('Add', ALL), '-': ('Subtract', ALL), '*': ('Multiply', ALL), '/': ('Divide', ALL), '^': ('Caret', ALL),
    '(': ('LeftParen', ALL), ')': ('RightParen', ALL), ',': ('Comma', ALL), '@': ('Ans', ALL),
    '!': ('ExclamationMark', NOT_CX), '%': ('Modulo', NOT_CX),
    '&': ('Ampersand', {'i64'}), '|': ('Bar', {'i64'}),
    'π': ('Pi', NOT_I64),
    '⌊': ('LeftFloor', REALS), '⌋': ('RightFloor', REALS), '⌈': ('LeftCeiling', REALS), '⌉': ('RightCeiling', REALS),
    '°': ('DegToRad', TRIG),
}
DOUBLE = {'<<': ('LeftShift', {'i64'}), '>>': ('RightShift', {'i64'})}

# function names (with aliases) -> (function, evaluators that offer it)   [README "Functions"]
FUNCTIONS = {
    'abs': ('Abs', ALL),
    'sgn': ('Sign', NOT_CX), 'sign': ('Sign', NOT_CX), 'signum': ('Sign', NOT_CX),
    'pow': ('Pow', ALL), 'sqrt': ('Sqrt', ALL), 'root': ('Root', ALL),
    'mod': ('Mod', NOT_CX),
    'exp': ('Exp', ALL), 'exp2': ('Exp2', ALL), 'ln': ('Ln', ALL), 'lb': ('Lb', ALL), 'log': ('Log', ALL),
    'min': ('Min', NOT_CX), 'max': ('Max', NOT_CX), 'avg': ('Avg', NOT_CX), 'med': ('Med', NOT_CX), 'median': ('Med', NOT_CX),
    'trunc': ('Truncate', REALS), 'truncate': ('Truncate', REALS), 'floor': ('Floor', REALS), 'ceil': ('Ceil', REALS), 'round': ('Round', REALS),
    'lambert_w': ('LambertW', REALS), 'w': ('LambertW', REALS), 'ilog': ('ILog', REALS),
    'sin': ('Sin', TRIG), 'cos': ('Cos', TRIG), 'tan': ('Tan', TRIG), 'sinh': ('Sinh', TRIG), 'cosh': ('Cosh', TRIG), 'tanh': ('Tanh', TRIG),
    'asin': ('Asin', TRIG), 'acos': ('Acos', TRIG), 'atan': ('Atan', TRIG),
    'asinh': ('Arsinh', TRIG), 'arsinh': ('Arsinh', TRIG), 'acosh': ('Arcosh', TRIG), 'arcosh': ('Arcosh', TRIG),
    'atanh': ('Artanh', TRIG), 'artanh': ('Artanh', TRIG),
    'atan2': ('Atan2', {'f64', 'number'}),
    'gcd': ('Gcd', {'i64'}), 'lcm': ('Lcm', {'i64'}),
}
# word tokens that need no parenthesis
WORDS = {'pi': ('Pi', NOT_I64), 'e': ('E', NOT_I64), 'rad': ('RadToDeg', TRIG)}

SUPERSCRIPTS = {0x2070: 0, 0xB9: 1, 0xB2: 2, 0xB3: 3, 0x2074: 4, 0x2075: 5, 0x2076: 6, 0x2077: 7, 0x2078: 8, 0x2079: 9}

ARITY = {   # fixed arities; aggregates are variadic
    'Abs': 1, 'Sign': 1, 'Sqrt': 1, 'Exp': 1, 'Exp2': 1, 'Ln': 1, 'Lb': 1, 'Truncate': 1, 'Floor': 1, 'Ceil': 1, 'Round': 1, 'LambertW': 1,
    'Sin': 1, 'Cos': 1, 'Tan': 1, 'Sinh': 1, 'Cosh': 1, 'Tanh': 1, 'Asin': 1, 'Acos': 1, 'Atan': 1, 'Arsinh': 1, 'Arcosh': 1, 'Artanh': 1,
    'Pow': 2, 'Root': 2, 'Mod': 2, 'Log': 2, 'ILog': 2, 'Atan2': 2,
    'Min': None, 'Max': None, 'Avg': None, 'Med': None, 'Gcd': None, 'Lcm': None,
}


def functions_of(ev):
    return {k: v[0] for k, v in FUNCTIONS.items() if ev in v[1]}


# characters whose class is fixed by the harness (template holes): z3 term id -> 'digit' | 'super'
KNOWN_CLASS = {}


def known(c):
    return KNOWN_CLASS.get(c.get_id()) if is_sym(c) else None


def ceq(c, ch):
    o = ord(ch)
    k = known(c)
    if k == 'digit' and not (48 <= o <= 57): return False
    if k == 'super' and o not in SUPERSCRIPTS: return False
    if is_sym(c): return c == o
    return c == o


def is_digit(c):
    k = known(c)
    if k == 'digit': return True
    if k == 'super': return False
    if is_sym(c): return z3.And(c >= 48, c <= 57)
    return 48 <= c <= 57


def is_super(c):
    k = known(c)
    if k == 'super': return True
    if k == 'digit': return False
    if is_sym(c): return z3.Or([c == k for k in SUPERSCRIPTS])
    return c in SUPERSCRIPTS


def super_val(c):
    if not is_sym(c): return SUPERSCRIPTS[c]
    r = z3.IntVal(0)
    for k, v in SUPERSCRIPTS.items(): r = z3.If(c == k, v, r)
    return r


def starts(chars, word, extra=''):
    w = word + extra
    if len(chars) < len(w): return False
    return b_and(*[ceq(chars[i], w[i]) for i in range(len(w))])


def lex_cases(ev, chars):
    n = len(chars)
    if n == 0: return [(True, ('eof',))]
    cs = []
    c0 = chars[0]
    for ch, (name, evs) in SINGLE.items():
        if ev in evs: cs.append((ceq(c0, ch), ('tok', name, None, 1)))
    for w, (name, evs) in DOUBLE.items():
        if ev in evs: cs.append((starts(chars, w), ('tok', name, None, 2)))
    # number literals
    if ev == 'i64':
        for j in range(n, 0, -1):       # maximal run of digits of length j
            cond = b_and(*[is_digit(c) for c in chars[:j]], True if j == n else b_not(is_digit(chars[j])))
            cs.append((cond, ('tok', 'Num', ('lit', chars[:j], 0, False, False), j)))
    else:
        # DIGITS | DIGITS . DIGITS* | . DIGITS+   (maximal), complex: optional i suffix
        def lit_case(j, dot):
            """literal occupying chars[:j] with the point at index dot (None = no point)"""
            conds = []
            for i in range(j):
                conds.append(ceq(chars[i], '.') if i == dot else is_digit(chars[i]))
            if j < n:
                nxt = chars[j]
                stop = b_not(is_digit(nxt))
                if dot is None: stop = b_and(stop, b_not(ceq(nxt, '.')))
                conds.append(stop)
            digs = [chars[i] for i in range(j) if i != dot]
            frac = 0 if dot is None else j - dot - 1
            return b_and(*conds), digs, frac
        for j in range(n, 0, -1):
            for dot in [None] + list(range(j)):
                if dot == 0 and j == 1: continue          # a lone '.' is not a literal
                if dot is not None and j == 1: continue
                cond, digs, frac = lit_case(j, dot)
                if not digs: continue
                if dot == 0 and frac == 0: continue
                if dot is not None and j < n:
                    # a literal that already has a point and is directly followed by another point: the input as a whole is
                    # malformed whichever way it is split (C03/C12 reject `Num Num` and a stray point), so the split is left open
                    second = ceq(chars[j], '.')
                    if second is not False:
                        cs.append((b_and(cond, second), ('open',)))
                        cond = b_and(cond, b_not(second))
                if ev == 'complex':
                    if j < n:
                        isi = ceq(chars[j], 'i')
                        cs.append((b_and(cond, isi), ('tok', 'Num', ('lit', digs, frac, True, dot is not None), j + 1)))
                        cs.append((b_and(cond, b_not(isi)), ('tok', 'Num', ('lit', digs, frac, False, dot is not None), j)))
                    else:
                        cs.append((cond, ('tok', 'Num', ('lit', digs, frac, False, dot is not None), j)))
                else:
                    cs.append((cond, ('tok', 'Num', ('lit', digs, frac, False, dot is not None), j)))
    # superscript digit runs
    for j in range(n, 0, -1):
        cond = b_and(*[is_super(c) for c in chars[:j]], True if j == n else b_not(is_super(chars[j])))
        cs.append((cond, ('tok', 'Superscript', ('lit', [super_val(c) + 48 if is_sym(c) else SUPERSCRIPTS.get(c, 0) + 48 for c in chars[:j]], 0, False, False), j)))
    # function names: the longest name of this evaluator that is directly followed by '('
    fns = functions_of(ev)
    for w in sorted(fns, key=lambda k: -len(k)):
        cs.append((starts(chars, w, '('), ('tok', 'ExplicitFunction', fns[w], len(w))))
    for w, (name, evs) in sorted(WORDS.items(), key=lambda kv: -len(kv[0])):
        if ev in evs: cs.append((starts(chars, w), ('tok', name, None, len(w))))
    if ev == 'complex':
        cs.append((ceq(c0, 'i'), ('tok', 'Num', ('imag_unit',), 1)))
    cs.append((True, ('none',)))
    # first match wins -> exclusive conditions
    out = []; prev = []
    for c, o in cs:
        if c is False: continue
        cond = b_and(c, *[b_not(p) for p in prev])
        if cond is not False: out.append((cond, o))
        if c is True: break
        prev.append(c)
    return out


def lex_all(ev, s):
    """concrete reference tokenisation of a Python string: list of (kind, payload) ending with ('Eof',) or ('NONE',)"""
    chars = [ord(c) for c in s]; out = []
    while True:
        cases = lex_cases(ev, chars)
        o = [oc for c, oc in cases if c is True]
        assert len(o) == 1, cases
        o = o[0]
        if o[0] == 'eof': out.append(('Eof', None)); return out
        if o[0] == 'none': out.append(('NONE', None)); return out
        out.append((o[1], o[2])); chars = chars[o[3]:]
