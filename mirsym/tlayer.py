"""T layer: one `Tokenizer::next` call of the real tokenizer (from MIR) on a symbolic string vs the reference lexer."""
import re
import z3

from .harness import *
from .reference import lexer as lx
from .summaries import digits_value, dec_lit_sym, uf, digits_le
from . import native


def tok_key(ev): return 'eval_%s::token::Token' % ev
def fn_key(ev): return 'eval_%s::token::NativeFunction' % ev


def r64_term(digs, frac):
    """double denoted by a digit string (code points) with `frac` fractional digits: correct rounding of the exact rational"""
    ds = [c - 48 for c in digs]
    num = digits_value(ds)
    if is_conc_int(num):
        from fractions import Fraction
        return fp_const(float(Fraction(num, 10 ** frac)))
    return uf('R64', z3.RealSort(), F64)(z3.ToReal(num) / z3.RealVal(10 ** frac))


def literal_value(ev, payload, kind):
    """reference value of a Num / Superscript token, or None when the statements leave it open (ANY)"""
    if payload[0] == 'imag_unit': return ('cplx', fp_const(0.0), fp_const(1.0)), True
    _, digs, frac, imag = payload[:4]
    ds = [c - 48 for c in digs]
    if ev == 'i64':
        return digits_value(ds), digits_le(ds, [int(ch) for ch in '9223372036854775807'])
    if ev == 'f64': return r64_term(digs, frac), True
    if ev == 'complex':
        r = r64_term(digs, frac)
        return (('cplx', fp_const(0.0), r) if imag else ('cplx', r, fp_const(0.0))), True
    if ev == 'number':
        if kind == 'Superscript' or (frac == 0 and not has_point(payload)):
            return adt(sem.NUM, 'Integer', [digits_value(ds)]), digits_le(ds, [int(ch) for ch in '9223372036854775807'])
        return adt(sem.NUM, 'Float', [r64_term(digs, frac)]), True
    if ev == 'decimal':
        # exact when at most 28 significant digits
        return dec_lit_sym(digits_value(ds), frac), len(digs) <= 28
    raise KeyError(ev)


def has_point(payload):
    return len(payload) > 4 and payload[4]


def same_value(ev, a, b):
    if ev == 'i64': return sem.same_int(a, b)
    if ev == 'f64': return a == b
    if ev == 'complex': return z3.And(a[1] == b[1], a[2] == b[2])
    if ev == 'number':
        if a[0] == 'sadt' or b[0] == 'sadt':
            from .player import leaf_equal
            return leaf_equal('number', a, b)      # a Number whose variant is decided by a condition (e.g. produced by Number::from)
        if a[2] != b[2]: return False
        return sem.same_int(a[3][0], b[3][0]) if a[2] == 'Integer' else (a[3][0] == b[3][0])
    if ev == 'decimal': return a[1] == b[1]
    raise KeyError(ev)


def render_token(ev, tok, cz):
    """Token value (adt) -> normalised text"""
    kind = tok[2]
    if kind in ('Num', 'Superscript'):
        v = tok[3][0]
        if ev == 'decimal':
            t = cz.ev(v[1])
            # dec_of(m, s) under the model
            if not (z3.is_app(v[1]) and v[1].decl().name() == 'dec_of'): return kind + ':approx'
            m, s_ = [cz.int(x) for x in v[1].children()]
            return '%s:dm%de%d' % (kind, m, s_)
        return '%s:%s' % (kind, render_value(ev, v, cz))
    if kind == 'ExplicitFunction': return 'ExplicitFunction:' + tok[3][0][2]
    return kind


def normalise_native_token(ev, text):
    """Debug text of a Token from the runner -> the same normalised text as render_token"""
    if text in ('NONE',): return 'NONE'
    m = re.match(r'^(Num|Superscript)\((.*)\)$', text)
    if m:
        kind, body = m.groups()
        if ev == 'f64': return '%s:%s' % (kind, native.f64_bits_str(float(body)))
        if ev == 'i64': return '%s:%d' % (kind, int(body))
        if ev == 'number':
            mi = re.match(r'^Integer\((-?\d+)\)$', body)
            if mi: return '%s:I%s' % (kind, mi.group(1))
            mf = re.match(r'^Float\((.*)\)$', body)
            return '%s:F%s' % (kind, native.f64_bits_str(float(mf.group(1))))
        if ev == 'complex':
            mc = re.match(r'^Complex \{ re: (.*), im: (.*) \}$', body)
            return '%s:c%s,%s' % (kind, native.f64_bits_str(float(mc.group(1))), native.f64_bits_str(float(mc.group(2))))
        if ev == 'decimal':
            neg = body.startswith('-'); t = body.lstrip('-')
            ip, _, fp = t.partition('.')
            return '%s:dm%s%de%d' % (kind, '-' if neg and int(ip + fp) != 0 else '', int(ip + fp), len(fp))
    m = re.match(r'^ExplicitFunction\((\w+)\)$', text)
    if m: return 'ExplicitFunction:' + m.group(1)
    return text


class CharLeaf:
    """a symbolic character of the input string"""
    ev = 'char'

    def __init__(self, name, constraint=None, cls=None):
        self.name = name; self.var = z3.Int(name)
        self.constraint = z3.And(self.var >= 0, self.var <= 0x10FFFF, z3.Or(self.var < 0xD800, self.var > 0xDFFF))
        if constraint is not None: self.constraint = z3.And(self.constraint, constraint(self.var))
        if cls: lx.KNOWN_CLASS[self.var.get_id()] = cls

    def value(self): return self.var


def model_string(chars, cz):
    return ''.join(chr(c if is_conc_int(c) else cz.int(c)) for c in chars)


class TokOb(EvalArm):
    """one Tokenizer::next call on the string `chars` (code points or CharLeaf) vs lex_cases"""
    plain = True

    def __init__(self, prop, ev, chars, label, oc=True, limits=None, replay_cap=200, want=None):
        EvalArm.__init__(self, prop, ev, 'next', None, None, oc=oc, label=label, limits=limits or {'steps': 4000, 'timeout_ms': 20000}, replay_cap=replay_cap)
        self.chars = chars
        self.want = want       # optional filter on reference cases (e.g. only judge names) -- None = everything
        self.ref_fn = self.make_ref

    def char_terms(self):
        return [c.var if isinstance(c, CharLeaf) else c for c in self.chars]

    def make_ref(self, _vals):
        ev = self.ev; chars = self.char_terms()
        out = []
        for cond, oc in lx.lex_cases(ev, chars):
            if oc[0] == 'eof':
                out.append((cond, sem.OKP(lambda r: is_some_kind(r, 'Eof') , 'Eof'))); continue
            if oc[0] == 'open':
                out.append((cond, sem.ANY)); continue
            if oc[0] == 'none':
                out.append((cond, sem.OKP(lambda r: r[1][0][2] == 'None' if r[1][0][0] == 'adt' else False, 'no token'))); continue
            _, kind, payload, consumed = oc
            if kind in ('Num', 'Superscript'):
                val, exact = literal_value(ev, payload, kind)
                def pred(r, kind=kind, val=val, consumed=consumed):
                    tok = some_token(r)
                    if tok is None or tok[2] != kind: return False
                    return b_and(r[1][1] == consumed, same_value(ev, tok[3][0], val))
                if exact is True: out.append((cond, sem.OKP(pred, (kind, str(val)[:60], consumed))))
                elif exact is False: out.append((cond, sem.ANY))
                else:
                    out.append((b_and(cond, exact), sem.OKP(pred, (kind, str(val)[:60], consumed))))
                    out.append((b_and(cond, b_not(exact)), sem.ANY))
            elif kind == 'ExplicitFunction':
                def pred(r, payload=payload, consumed=consumed):
                    tok = some_token(r)
                    if tok is None or tok[2] != 'ExplicitFunction': return False
                    f = tok[3][0]
                    return f[0] == 'adt' and f[2] == payload and r[1][1] == consumed
                out.append((cond, sem.OKP(pred, ('function', payload, consumed))))
            else:
                def pred(r, kind=kind, consumed=consumed):
                    tok = some_token(r)
                    return tok is not None and tok[2] == kind and r[1][1] == consumed
                out.append((cond, sem.OKP(pred, (kind, consumed))))
        return out

    def outcome_of(self, p, e):
        if p.kind == 'panic': return ('panic', p.msg)
        if p.kind == 'limit': return ('limit', p.msg)
        # consumed characters: position of the iterator minus a still-peeked character
        tk = p.state.mem[self.tk_key]
        it = tk[3][0]
        _, chars, pos, pk = it
        consumed = pos - (1 if (pk is not None and pk[2] == 'Some') else 0)
        self.last_consumed = consumed
        return ('ok', ('tuple', (p.value, consumed)))

    def render(self, v, cz):
        opt, consumed = v[1]
        if opt[2] == 'None': return 'NONE'
        return render_token(self.ev, opt[3][0], cz) + '|rest=ok'

    def setup(self, ctx, prog, e, st, runner):
        ev = self.ev
        entry = prog.entry(ev, 'tok_next')
        chars = tuple(self.char_terms())
        self.tk_key = st.alloc(adt('eval_%s::tokenizer::Tokenizer' % ev, None, [('peek', chars, 0, None)]))
        leaves = [c for c in self.chars if isinstance(c, CharLeaf)]
        ob = self

        def native_of(cz):
            s = model_string(chars, cz)
            stt, payload, us = runner.request('TOK', ev, native.esc(s), '64')
            if stt != 'OK': return repr(s), stt, payload, us
            toks = payload.split('\t')
            first = normalise_native_token(ev, toks[0])
            if first == 'NONE': return repr(s), 'OK', 'NONE', us
            if ev == 'decimal' and first.startswith(('Num:', 'Superscript:')):
                lead = re.match(r'^[0-9.]*|^[⁰¹²³⁴-⁹]*', s).group(0)
                nd = len([c for c in (lead or s) if c.isdigit()]) if first.startswith('Num:') else len(re.match(r'^[⁰¹²³⁴⁵⁶⁷⁸⁹]*', s).group(0))
                if nd > 28: first = first.split(':')[0] + ':approx'
            # the rest of the token sequence must be the tokenisation of the remaining characters
            k = ob.last_consumed
            rest_ok = 'ok'
            if k is not None and first != 'Eof':
                st2, p2, _ = runner.request('TOK', ev, native.esc(s[k:]), '64')
                if st2 != 'OK' or p2.split('\t') != toks[1:]: rest_ok = 'BAD(native rest %r vs %r)' % (toks[1:4], p2.split('\t')[:3])
            return repr(s), 'OK', first + '|rest=' + rest_ok, us
        self.last_consumed = None
        return entry, [('ref', self.tk_key, ())], leaves, native_of


def some_token(r):
    opt = r[1][0]
    if opt[0] != 'adt' or opt[2] != 'Some': return None
    t = opt[3][0]
    if t[0] != 'adt': raise Unsupported('symbolic token kind returned by the tokenizer')
    return t


def is_some_kind(r, kind):
    t = some_token(r)
    return t is not None and t[2] == kind


# -------------------------------------------------------------------------------------------------------------
# obligation generators shared by several properties
def digit(name): return CharLeaf(name, lambda v: z3.And(v >= 48, v <= 57), 'digit')


def superdigit(name): return CharLeaf(name, lambda v: z3.Or([v == k for k in lx.SUPERSCRIPTS]), 'super')


def all_words():
    return sorted(set(lx.FUNCTIONS) | set(lx.WORDS) | {'i'})


def full_alphabet(prop, ev, k, oc, tag):
    """every string of exactly k characters over the whole of Unicode"""
    return TokOb(prop, ev, [CharLeaf('c%d' % i) for i in range(k)], '%s/tok/any%d/%s' % (ev, k, tag), oc=oc, limits={'steps': 4000, 'timeout_ms': 30000}, replay_cap=400)


def keyword_templates(prop, ev, oc, tag, words=None, nearmiss=True):
    obs = []
    for w in (words or all_words()):
        cs = [ord(c) for c in w]
        obs.append(TokOb(prop, ev, cs + [ord('('), CharLeaf('t')], '%s/tok/%s(+any/%s' % (ev, w, tag), oc=oc))
        obs.append(TokOb(prop, ev, cs + [CharLeaf('t'), CharLeaf('u')], '%s/tok/%s+any2/%s' % (ev, w, tag), oc=oc))
        obs.append(TokOb(prop, ev, cs, '%s/tok/%s$/%s' % (ev, w, tag), oc=oc))
        if nearmiss:
            for i in range(len(w)):
                cs2 = list(cs); cs2[i] = CharLeaf('m')
                obs.append(TokOb(prop, ev, cs2 + [ord('('), CharLeaf('t')], '%s/tok/%s~%d(/%s' % (ev, w, i, tag), oc=oc))
    return obs


def superscript_templates(prop, ev, oc, tag, lens=(1, 2, 3, 18, 19, 20, 30)):
    obs = []
    for n in lens:
        obs.append(TokOb(prop, ev, [superdigit('s%d' % i) for i in range(n)] + [CharLeaf('t')], '%s/tok/super%d+any/%s' % (ev, n, tag), oc=oc))
    return obs
