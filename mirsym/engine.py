"""Path-forking symbolic interpreter over the MIR of the crate, deciding branches with z3.

The interpreter executes the bodies rustc emitted for the crate's own functions; calls that leave the crate
go to summaries (summaries.py).  Exploration is depth first; the z3 solver holds the path condition of the
path being explored (push/pop).  Every finished path is handed to a callback while its path condition is
still asserted, so the harness can discharge its queries in that context.
"""
import re, time, itertools, collections
import z3

from . import mirparse
from .values import *
from .front import mirparse_strip, ORDERING_DISCR


MARK = object()


class Path:
    """one explored path: outcome + the data a harness needs to judge and replay it"""
    __slots__ = ('kind', 'value', 'msg', 'where', 'steps', 'pc', 'state', 'trace')

    def __init__(self, kind, value, msg, where, steps, pc, state, trace):
        self.kind = kind      # 'ret' | 'panic' | 'limit'
        self.value = value; self.msg = msg; self.where = where; self.steps = steps; self.pc = pc; self.state = state
        self.trace = trace


class State:
    __slots__ = ('mem', 'frames', 'uid', 'steps', 'backedges', 'trace')

    def __init__(self):
        self.mem = {}; self.frames = []; self.uid = 0; self.steps = 0; self.backedges = 0; self.trace = ()

    def fork(self):
        s = State(); s.mem = dict(self.mem); s.uid = self.uid
        s.frames = []
        for f in self.frames:
            f2 = dict(f); f2['loc'] = dict(f['loc']); s.frames.append(f2)
        s.steps = self.steps; s.backedges = self.backedges; s.trace = self.trace
        return s

    def alloc(self, value):
        self.uid += 1; key = (self.uid, 'h'); self.mem[key] = value
        return key


class Stats:
    def __init__(self):
        self.paths = 0; self.stmts = 0; self.queries = collections.Counter(); self.solver_s = 0.0
        self.fns = collections.Counter(); self.summaries = collections.Counter(); self.transitions = 0


class Engine:
    def __init__(self, prog, step_limit=200000, loop_limit=None, timeout_ms=20000, seed=0):
        self.prog = prog
        self.solver = z3.Solver()
        self.solver.set('timeout', timeout_ms)
        self.timeout_ms = timeout_ms; self.branch_timeout_ms = min(timeout_ms, 5000); self.assumed_feasible = 0
        self.deadline = None; self.max_paths = None
        self.lazy = False; self.base_solver_assertions = []
        self.abstract_fdiv = False        # treat f64 division of two symbolic operands as an uninterpreted function (over-approximation)
        if seed: self.solver.set('random_seed', seed % (1 << 30))
        self.pc = []
        self.stats = Stats()
        self.fresh = itertools.count()
        self.step_limit = step_limit       # counted steps (crate calls + back edges) before a path is cut
        self.fn_stubs = {}                 # resolved crate function name -> handler (environment stubs keyed by definition)
        self.stubs = {}                    # callee-name regex -> handler(engine, st, name, args) (environment stubs of a harness)
        self.on_path = None
        self.merge_fns = set()             # crate fns explored on a symbolic argument with their paths merged
        self.unknowns = []
        self.merge_off = False; self._merge_cache = {}
        self.no_feasibility = False    # merged exploration of pure functions keeps every syntactic branch
        from . import summaries
        self.summaries = summaries

    # ---- solver ---------------------------------------------------------
    def check(self, *conds):
        """sat / unsat / unknown of PC /\\ conds"""
        conds = [c for c in conds if c is not True]
        if any(c is False for c in conds): return z3.unsat
        t = time.time()
        if self.deadline and t > self.deadline: raise Unsupported('wall-clock budget of this obligation exceeded')
        if self.lazy:
            base = self.base_solver_assertions
            self.solver = z3.Solver(); self.solver.set('timeout', getattr(self, '_cur_timeout_ms', self.timeout_ms))
            for c in self.path_condition(): self.solver.add(c)
        # z3's own timeout is only polled at certain points of the FP / UF procedures: a timer interrupts the context as a backstop
        import threading
        budget_s = getattr(self, '_cur_timeout_ms', self.timeout_ms) / 1000.0 + 3.0
        timer = threading.Timer(budget_s, self.solver.ctx.interrupt)
        timer.daemon = True; timer.start()
        try:
            r = self.solver.check(*conds)
        except z3.Z3Exception:
            r = z3.unknown
        finally:
            timer.cancel()
        self.stats.solver_s += time.time() - t
        self.stats.queries[str(r)] += 1
        if r == z3.unknown: self.unknowns.append(str(conds)[:200])
        return r

    def feasible(self, cond):
        if cond is True: return True
        if cond is False: return False
        if self.no_feasibility: return True
        self.solver.set('timeout', self.branch_timeout_ms); self._cur_timeout_ms = self.branch_timeout_ms
        try:
            r = self.check(cond)
        finally:
            self.solver.set('timeout', self.timeout_ms); self._cur_timeout_ms = self.timeout_ms
        if r == z3.unknown:
            # undecided within the branch budget: keep the branch (over-approximation: sound for "holds on every path";
            # any counterexample found below it must still pass the concrete replay)
            self.assumed_feasible += 1
            return True
        return r == z3.sat

    def assume(self, cond):
        if cond is True: return
        if not self.lazy: self.solver.add(cond)
        self.pc.append(cond)

    def push(self, cond=True):
        # lazy mode (syntactic exploration): the path condition is only kept as a list; a solver is built when a query is really asked
        if not self.lazy: self.solver.push()
        self.pc.append(MARK)
        if cond is not True:
            if not self.lazy: self.solver.add(cond)
            self.pc.append(cond)

    def pop(self):
        if not self.lazy: self.solver.pop()
        while self.pc.pop() is not MARK: pass

    def path_condition(self):
        return [c for c in self.pc if c is not MARK]

    def model(self):
        r = self.solver.check()
        if r != z3.sat: raise Unsupported('no model for a finished path: ' + str(r))
        return self.solver.model()

    # ---- types ------------------------------------------------------------
    def place_type(self, fr, place):
        k = place[0]
        if k == 'local': return fr['fn'].locals.get(place[1], '?')
        if k == 'field': return place[3]
        if k == 'deref':
            t = self.place_type(fr, place[1]).strip()
            for pre in ('&mut ', '&', '*const ', '*mut '):
                if t.startswith(pre): return t[len(pre):].strip()
            m = re.match(r'^(?:std::boxed::)?Box<(.*)>$', t)
            return m.group(1) if m else '?'
        if k == 'downcast': return self.place_type(fr, place[1])
        return '?'

    def operand_type(self, fr, op):
        if op[0] in ('move', 'copy'): return self.place_type(fr, op[1])
        if op[0] == 'const':
            m = re.search(r'_(i8|i16|i32|i64|i128|isize|u8|u16|u32|u64|u128|usize)$', op[1])
            if m: return m.group(1)
            if op[1].endswith('f64'): return 'f64'
            if 'i64>::M' in op[1] or op[1].startswith('i64::'): return 'i64'
            if 'u32>::M' in op[1] or op[1].startswith('u32::'): return 'u32'
            if 'i32>::M' in op[1] or op[1].startswith('i32::'): return 'i32'
        return '?'

    # ---- memory ---------------------------------------------------------
    def read_path(self, st, v, path):
        variant = None
        for p in path:
            if isinstance(p, tuple):
                if p[0] == 'v': variant = p[1]; continue
                if p[0] == 'i':
                    idx = p[1]
                    if v[0] in ('vec', 'array'):
                        if not is_conc_int(idx): raise Unsupported('symbolic index')
                        v = v[1][idx]; continue
                    raise Unsupported('index into ' + str(v[0]))
            if v is None: raise Unsupported('read of uninitialised memory')
            tag = v[0] if isinstance(v, tuple) else None
            if tag == 'adt': v = v[3][p]
            elif tag == 'sadt':
                if variant is None: raise Unsupported('field of symbolic enum without downcast')
                v = v[3][variant][p]
            elif tag == 'tuple': v = v[1][p]
            elif tag == 'box' and p == 0: v = ('unique', v[1])
            elif tag == 'unique' and p == 0: v = ('ref', v[1], ())
            elif tag == 'cplx': v = v[1 + p]
            elif tag == 'closure' and len(v) > 2: v = v[2][p]
            else: raise Unsupported('field %r of %r' % (p, tag if tag else v))
            variant = None
        return v

    def write_path(self, v, path, new):
        if not path: return new
        p = path[0]
        if isinstance(p, tuple) and p[0] == 'v':
            if len(path) == 1: return v
            idx = path[1]
            if v is not None and v[0] == 'sadt':
                d = dict(v[3]); f = list(d[p[1]]); f[idx] = self.write_path(f[idx], path[2:], new); d[p[1]] = tuple(f)
                return ('sadt', v[1], v[2], d)
            f = list(v[3]); f[idx] = self.write_path(f[idx], path[2:], new); return ('adt', v[1], v[2], tuple(f))
        if isinstance(p, tuple) and p[0] == 'i':
            f = list(v[1]); f[p[1]] = self.write_path(f[p[1]], path[1:], new); return (v[0], tuple(f))
        if v is None: raise Unsupported('write into uninitialised aggregate')
        if v[0] == 'adt':
            f = list(v[3]); f[p] = self.write_path(f[p], path[1:], new); return ('adt', v[1], v[2], tuple(f))
        if v[0] == 'tuple':
            f = list(v[1]); f[p] = self.write_path(f[p], path[1:], new); return ('tuple', tuple(f))
        if v[0] == 'cplx':
            f = list(v); f[1 + p] = self.write_path(f[1 + p], path[1:], new); return tuple(f)
        raise Unsupported('write_path into ' + str(v[0]))

    def resolve(self, st, fr, place):
        k = place[0]
        if k == 'local': return ((fr['uid'], place[1]), ())
        if k == 'deref':
            r = self.load(st, fr, place[1])
            if r[0] == 'ref': return (r[1], r[2])
            if r[0] in ('box', 'unique'): return (r[1], ())
            raise Unsupported('deref of ' + str(r[0]))
        if k == 'field':
            key, path = self.resolve(st, fr, place[1]); return (key, path + (place[2],))
        if k == 'downcast':
            key, path = self.resolve(st, fr, place[1]); return (key, path + (('v', place[2]),))
        if k == 'index':
            key, path = self.resolve(st, fr, place[1])
            idx = self.load(st, fr, mirparse.parse_place(place[2])[0]) if place[2].startswith('_') else int(place[2].split(' ')[0])
            return (key, path + (('i', idx),))
        raise Unsupported('place ' + k)

    # memory cells: heap cells (key = (uid, 'h')) live in st.mem; locals (key = (frame uid, index)) live in their frame and die with it
    def cells(self, st, key, fr=None):
        if key[1] == 'h': return st.mem
        if fr is not None and fr['uid'] == key[0]: return fr['loc']
        for f in reversed(st.frames):
            if f['uid'] == key[0]: return f['loc']
        raise Unsupported('reference to a local of a frame that has returned')

    def cell_get(self, st, key, fr=None):
        d = self.cells(st, key, fr)
        k = key if key[1] == 'h' else key[1]
        if k not in d: raise Unsupported('read of unset local %s' % (key,))
        return d[k]

    def cell_set(self, st, key, val, fr=None):
        d = self.cells(st, key, fr)
        d[key if key[1] == 'h' else key[1]] = val

    def load(self, st, fr, place):
        key, path = self.resolve(st, fr, place)
        return self.read_path(st, self.cell_get(st, key, fr), path)

    def store(self, st, fr, place, val):
        key, path = self.resolve(st, fr, place)
        if path:
            d = self.cells(st, key, fr); k = key if key[1] == 'h' else key[1]
            d[k] = self.write_path(d.get(k), path, val)
        else: self.cell_set(st, key, val, fr)

    def rd(self, st, ref):
        """read through a reference value"""
        if ref[0] in ('box', 'unique'): return st.mem[ref[1]]
        if ref[0] != 'ref': return ref          # by-value stand-in (strings)
        return self.read_path(st, self.cell_get(st, ref[1]), ref[2])

    def wr(self, st, ref, val):
        self.cell_set(st, ref[1], self.write_path(self.cell_get(st, ref[1]), ref[2], val) if ref[2] else val)

    def temp_ref(self, st, value):
        return ('ref', st.alloc(value), ())

    # ---- constants --------------------------------------------------------
    NAMED_CONSTS = None

    def const(self, st, fr, c):
        m = re.match(r'^(-?\d+)_(i8|i16|i32|i64|i128|isize|u8|u16|u32|u64|u128|usize)$', c)
        if m: return int(m.group(1))
        if c in ('true', 'false'): return c == 'true'
        m = re.match(r'^(-?[0-9.]+(?:E[+-]?\d+)?)f64$', c)
        if m: return fp_const(float(m.group(1)))
        m = re.match(r"^'(.*)'$", c, re.S)
        if m:
            s = m.group(1)
            if s.startswith('\\u{'): return int(s[3:-1], 16)
            if s.startswith('\\'): return ord({'n': '\n', 't': '\t', "'": "'", '\\': '\\', 'r': '\r', '0': '\0', '"': '"'}[s[1]])
            return ord(s)
        m = re.match(r'^"(.*)"$', c, re.S)
        if m: return ('str', tuple(ord(ch) for ch in unescape(m.group(1))))
        if 'promoted[' in c:
            idx = re.search(r'promoted\[(\d+)\]', c).group(1)
            body = self.prog.promoted.get(fr['fn'].name + '::promoted[' + idx + ']')
            if body is None: raise Unsupported('promoted constant ' + c)
            return self.eval_promoted(st, body)
        if c.startswith('ZeroSized'): return ('zst', c)
        if c == '()': return UNIT
        if c.startswith('b"'): return ('opaque', 'bytes')
        v = self.summaries.named_const(self, c)
        if v is not None: return v
        # a `const` item of the crate
        cands = [k for k in self.prog.consts if k == c or c.endswith('::' + k) or k.endswith('::' + c)]
        if len(cands) == 1:
            kind, ty, body = self.prog.consts[cands[0]]
            if kind == 'value': return self.operand(st, fr, body)
            return self.eval_promoted(st, body)
        if [k for k in self.prog.statics if k == c or c.endswith('::' + k)]:
            raise Unsupported('read of a static item: ' + c)
        raise Unsupported('const ' + c)

    def eval_promoted(self, st, body):
        """promoted constants are straight-line: statements plus calls to pure library constructors"""
        st.uid += 1; pfr = {'uid': st.uid, 'fn': body, 'bb': 'bb0', 'loc': {}}
        bb = 'bb0'
        for _ in range(64):
            blk = body.blocks[bb]
            for s_ in blk.stmts: self.store(st, pfr, s_[1], self.rvalue(st, pfr, s_[2], s_[1]))
            t = blk.term
            if t[0] == 'return':
                # a promoted constant is a reference to its own temporaries: move them to the heap so that they outlive this pseudo frame
                moved = {}
                def migrate(v):
                    if isinstance(v, tuple) and v:
                        if v[0] == 'ref' and v[1][0] == pfr['uid'] and v[1][1] != 'h':
                            idx = v[1][1]
                            if idx not in moved:
                                moved[idx] = st.alloc(None)
                                st.mem[moved[idx]] = migrate(pfr['loc'][idx])
                            return ('ref', moved[idx], v[2])
                        if v[0] in ('adt',): return ('adt', v[1], v[2], tuple(migrate(x) for x in v[3]))
                        if v[0] in ('tuple', 'array', 'vec'): return (v[0], tuple(migrate(x) for x in v[1]))
                    return v
                return migrate(pfr['loc'][0])
            if t[0] == 'goto': bb = t[1]; continue
            if t[0] == 'call':
                argv = [self.operand(st, pfr, a) for a in t[3]]
                outs = self.summaries.dispatch(self, st, t[2], argv)
                if len(outs) != 1 or outs[0][0] is not True or isinstance(outs[0][1], Panic): raise Unsupported('promoted constant with a branching call')
                v = outs[0][1]
                if callable(v): v = v(st)
                self.store(st, pfr, t[1], v); bb = t[4]['return']; continue
            raise Unsupported('promoted constant terminator ' + t[0])
        raise Unsupported('promoted constant too long')

    def operand(self, st, fr, op):
        if op[0] in ('move', 'copy'): return self.load(st, fr, op[1])
        if op[0] == 'const': return self.const(st, fr, op[1])
        if op[0] == 'fnitem': return ('fn', op[1])
        raise Unsupported(op[0])

    # ---- enums ------------------------------------------------------------
    def discr(self, v):
        if v[0] == 'sadt': return v[2]
        if v[0] != 'adt': raise Unsupported('discriminant of ' + str(v[0]))
        if v[1] == 'Ordering': return ORDERING_DISCR[v[2]]
        return self.prog.enums[v[1]].index(v[2])

    def make_adt(self, path, fields):
        """value of an aggregate rvalue `Path::Variant(args)` / `Path(args)`"""
        p = mirparse_strip(path)
        segs = p.split('::')
        if len(segs) >= 2:
            ek = self.prog.enum_key('::'.join(segs[:-1]))
            if ek is not None and segs[-1] in self.prog.enums[ek]: return adt(ek, segs[-1], fields)
        last = segs[-1]
        if len(segs) == 1:
            # trimmed path of a variant (`Equal`, `None`): the unique enum that has a variant of this name
            c = [k for k, vs in self.prog.enums.items() if last in vs]
            if len(c) == 1: return adt(c[0], last, fields)
        if last == 'Complex' or p.endswith('Complex'): return ('cplx', fields[0], fields[1])
        return adt(p, None, fields)

    # ---- rvalues ----------------------------------------------------------
    def rvalue(self, st, fr, rv, dest=None):
        k = rv[0]
        if k == 'use': return self.operand(st, fr, rv[1])
        if k in ('ref', 'rawptr'):
            key, path = self.resolve(st, fr, rv[1]); return ('ref', key, path)
        if k == 'discr': return self.discr(self.load(st, fr, rv[1]))
        if k == 'adt': return self.make_adt(rv[1], [self.operand(st, fr, a) for a in rv[2]])
        if k == 'struct': return adt(mirparse_strip(rv[1]), None, [self.operand(st, fr, v) for _, v in rv[2]])
        if k == 'tuple': return ('tuple', tuple(self.operand(st, fr, a) for a in rv[1]))
        if k == 'array': return ('array', tuple(self.operand(st, fr, a) for a in rv[1]))
        if k == 'closure': return ('closure', rv[1], tuple(self.operand(st, fr, c) for c in rv[2]))
        if k == 'len':
            v = self.load(st, fr, rv[1]); return len(v[1])
        if k == 'binop': return self.binop(st, fr, rv, dest)
        if k == 'unop':
            a = self.operand(st, fr, rv[2]); o = rv[1]
            if o == 'Not':
                if isinstance(a, bool) or (is_sym(a) and z3.is_bool(a)): return b_not(a)
                ty = self.operand_type(fr, rv[2])
                if is_conc_int(a): return wrap(~a, ty)
                raise Unsupported('bitwise not on symbolic int')
            if o == 'Neg':
                if is_fp(a): return fsimp(z3.fpNeg(a), a)
                return i_neg(a, self.operand_type(fr, rv[2]) if self.operand_type(fr, rv[2]) in INT_TYPES else 'i64')
            raise Unsupported('unop ' + o)
        if k == 'cast': return self.cast(st, fr, rv)
        raise Unsupported('rvalue ' + k)

    def binop(self, st, fr, rv, dest):
        o = rv[1]
        a = self.operand(st, fr, rv[2]); b = self.operand(st, fr, rv[3])
        if is_fp(a) or is_fp(b):
            if o == 'Add': return fsimp(z3.fpAdd(RNE, a, b), a, b)
            if o == 'Sub': return fsimp(z3.fpSub(RNE, a, b), a, b)
            if o == 'Mul': return fsimp(z3.fpMul(RNE, a, b), a, b)
            if o == 'Div':
                if self.abstract_fdiv and not fp_is_conc(a) and not fp_is_conc(b): return uf_f64('fdiv', a, b)
                return fsimp(z3.fpDiv(RNE, a, b), a, b)
            if o == 'Rem': return self.summaries.f_fmod(a, b)
            cmp = {'Eq': z3.fpEQ, 'Ne': z3.fpNEQ, 'Lt': z3.fpLT, 'Le': z3.fpLEQ, 'Gt': z3.fpGT, 'Ge': z3.fpGEQ}.get(o)
            if cmp:
                r = cmp(a, b)
                if fp_is_conc(a) and fp_is_conc(b): return z3.is_true(z3.simplify(r))
                return r
            raise Unsupported('float binop ' + o)
        if isinstance(a, bool) or isinstance(b, bool) or (is_sym(a) and z3.is_bool(a)) or (is_sym(b) and z3.is_bool(b)):
            if o == 'Eq': return a == b if isinstance(a, bool) and isinstance(b, bool) else (as_z3_bool(a) == as_z3_bool(b))
            if o == 'Ne': return a != b if isinstance(a, bool) and isinstance(b, bool) else (as_z3_bool(a) != as_z3_bool(b))
            if o == 'BitAnd': return b_and(a, b)
            if o == 'BitOr': return b_or(a, b)
            raise Unsupported('bool binop ' + o)
        ty = self.operand_type(fr, rv[2])
        if ty not in INT_TYPES: ty = self.operand_type(fr, rv[3])
        if ty not in INT_TYPES and dest is not None:
            ty = self.place_type(fr, dest)
        if ty not in INT_TYPES: ty = 'i64' if ty == '?' else ty
        if ty not in INT_TYPES:
            if isinstance(a, tuple) and a[0] == 'ref' and o in ('Eq', 'Ne'):
                return (a == b) if o == 'Eq' else (a != b)
            raise Unsupported('binop %s on %s' % (o, ty))
        if o in ('Eq', 'Ne', 'Lt', 'Le', 'Gt', 'Ge'):
            r = i_cmp(o, a, b, ty)
            return r
        if o in ('Add', 'Sub', 'Mul'):
            r, ov = i_arith(o, a, b, ty)
            return r            # unchecked form: wraps (release semantics; in debug the checked form is emitted instead)
        if o in ('AddWithOverflow', 'SubWithOverflow', 'MulWithOverflow'):
            r, ov = i_arith(o[:3], a, b, ty)
            return ('tuple', (r, ov))
        if o == 'Div': return i_div(a, b, ty)
        if o == 'Rem': return i_rem(a, b, ty)
        if o in ('BitAnd', 'BitOr', 'BitXor'): return i_bit(o, a, b, ty)
        if o in ('Shl', 'Shr'):
            bits = INT_TYPES[ty][0]
            # MIR Shl/Shr mask the shift amount (the overflow assert precedes them in checked builds)
            n = b
            if is_conc_int(n): n = n & (bits - 1)
            elif is_bv(n): n = n & (bits - 1)
            else: n = n % bits
            return i_shift(o, a, n, ty)
        if o == 'Cmp':
            lt = i_cmp('Lt', a, b, ty); eq = i_cmp('Eq', a, b, ty)
            d = ite(lt, -1, ite(eq, 0, 1))
            if is_conc_int(d): return adt('Ordering', {-1: 'Less', 0: 'Equal', 1: 'Greater'}[d])
            return ('sadt', 'Ordering', d, {'Less': (), 'Equal': (), 'Greater': ()})
        raise Unsupported('binop ' + o)

    def cast(self, st, fr, rv):
        v = self.operand(st, fr, rv[1]); kind = rv[3]; to = rv[2].strip()
        if kind == 'IntToInt':
            src = self.operand_type(fr, rv[1])
            if isinstance(v, bool): v = 1 if v else 0
            elif is_sym(v) and z3.is_bool(v): v = z3.If(v, 1, 0)
            if src not in INT_TYPES: src = 'i64' if not (is_sym(v) and z3.is_bool(v)) else 'u8'
            if isinstance(v, tuple) and v[0] in ('adt', 'sadt'):    # fieldless enum as isize
                return self.discr(v)
            return i_cast(v, src, to)
        if kind == 'IntToFloat':
            src = self.operand_type(fr, rv[1])
            return int_to_f64(v, src if src in INT_TYPES else 'i64')
        if kind == 'FloatToInt': return f64_to_int(v, to)
        if kind == 'FloatToFloat': return v
        if kind in ('Transmute', 'PtrToPtr') or kind.startswith('PointerCoercion'):
            if isinstance(v, tuple) and v[0] == 'closure' and 'ReifyFnPointer' not in kind and 'ClosureFnPointer' not in kind: return v
            return v
        raise Unsupported('cast ' + kind)

    # ---- calls ------------------------------------------------------------
    def call_fn(self, st, fname, args, cont=None, ret=None):
        f = self.prog.fns[fname][0]
        st.uid += 1
        fr = {'uid': st.uid, 'fn': f, 'bb': 'bb0', 'cont': cont, 'ret': ret, 'loc': {i + 1: a for i, a in enumerate(args)}}
        st.frames.append(fr)
        st.steps += 1
        self.stats.fns[fname] += 1
        if st.steps > self.step_limit: raise StepLimit()

    def closure_body(self, fv):
        span = re.search(r'closure@([^}]*)', fv[1] if fv[0] == 'closure' else fv[1]).group(1)
        body = self.prog.closures.get(span)
        if body is None: raise Unsupported('closure body ' + span)
        return body

    def finish(self, st, kind, value=None, msg=None, where=None):
        self.stats.paths += 1
        if self.max_paths and self.stats.paths > self.max_paths: raise StopExploration()
        p = Path(kind, value, msg, where, st.steps, self.path_condition(), st, st.trace)
        if self.on_path: self.on_path(p)

    def frame_of(self, st, uid):
        for f in reversed(st.frames):
            if f['uid'] == uid: return f
        raise Unsupported('frame vanished')

    def branch(self, st, alts):
        """alts: list of (cond, action(state) -> bool continue?)"""
        live = [(c, f) for c, f in alts if self.feasible(c)]
        for i, (c, f) in enumerate(live):
            s2 = st if i == len(live) - 1 else st.fork()
            self.push(c)
            try:
                try:
                    go = f(s2)
                except Panic as p:
                    self.finish(s2, 'panic', msg=str(p), where=self.where(s2)); go = False
                except StepLimit:
                    self.finish(s2, 'limit', msg='step limit %d exceeded' % self.step_limit, where=self.where(s2)); go = False
                if go: self.run(s2)
            finally:
                self.pop()

    def where(self, st):
        fr = st.frames[-1] if st.frames else None
        return '%s:%s' % (fr['fn'].name, fr['bb']) if fr else '?'

    def run(self, st):
        try:
            self._run(st)
        except Panic as p:
            self.finish(st, 'panic', msg=str(p), where=self.where(st))
        except StepLimit:
            self.finish(st, 'limit', msg='step limit %d exceeded' % self.step_limit, where=self.where(st))

    def _run(self, st):
        stats = self.stats
        while st.frames:
            if self.deadline and (stats.stmts & 1023) == 0 and time.time() > self.deadline:
                raise Unsupported('wall-clock budget of this obligation exceeded')
            fr = st.frames[-1]
            blk = fr['fn'].blocks[fr['bb']]
            for s in blk.stmts:
                stats.stmts += 1
                if s[0] == 'assign': self.store(st, fr, s[1], self.rvalue(st, fr, s[2], s[1]))
                elif s[0] == 'setdiscr':
                    v = self.load(st, fr, s[1])
                    ek = v[1]; self.store(st, fr, s[1], adt(ek, self.prog.enums[ek][s[2]], v[3] if v[0] == 'adt' else ()))
                else: raise Unsupported('stmt ' + s[0] + (': ' + s[1][:120] if s[0] == 'unparsed' else ''))
            t = blk.term; stats.stmts += 1; stats.transitions += 1; k = t[0]
            if k == 'goto':
                self.jump(st, fr, t[1])
            elif k == 'return':
                ret = fr['loc'].get(0, UNIT); st.frames.pop()
                if fr.get('cont') is not None:
                    r = fr['cont'](st, ret)
                    if r is False: return
                elif fr.get('ret') is not None:
                    cuid, dest, bb = fr['ret']
                    caller = self.frame_of(st, cuid)
                    self.store(st, caller, dest, ret); self.jump(st, caller, bb)
                else:
                    self.finish(st, 'ret', value=ret); return
            elif k == 'drop': self.jump(st, fr, t[2]['return'])
            elif k == 'unreachable':
                if self.no_feasibility: return          # syntactic exploration: this branch is infeasible by the compiler's own knowledge
                raise Unsupported('reached `unreachable` in ' + fr['fn'].name + ' ' + fr['bb'])
            elif k == 'assert':
                cond = self.operand(st, fr, t[1]); expected = t[2]
                okc = as_bool(cond) if expected else b_not(as_bool(cond))
                msg = t[3]
                uid = fr['uid']; target = t[4]['success']; where = self.where(st)

                def go_ok(s2, uid=uid, target=target):
                    self.frame_of(s2, uid)['bb'] = target; return True

                def go_fail(s2, msg=msg, where=where):
                    self.finish(s2, 'panic', msg='assert failed: ' + msg, where=where); return False
                if okc is True: fr['bb'] = target; continue
                if okc is False: go_fail(st); return
                self.branch(st, [(b_not(okc), go_fail), (okc, go_ok)]); return
            elif k == 'switch':
                v = self.operand(st, fr, t[1]); tg = t[2]
                if isinstance(v, tuple) and v[0] in ('adt', 'sadt'): v = self.discr(v)
                if not is_sym(v):
                    if v is True: v = 1
                    if v is False: v = 0
                    self.jump(st, fr, tg.get(str(v), tg.get('otherwise'))); continue
                groups = collections.OrderedDict(); vals = []; isbool = z3.is_bool(v)
                for kk, bb in tg.items():
                    if kk == 'otherwise': continue
                    vals.append(int(kk)); groups.setdefault(bb, []).append(int(kk))
                if 'otherwise' in tg and tg['otherwise'] in groups:
                    pass
                alts = []; uid = fr['uid']

                def go(bb, uid=uid):
                    def f(s2):
                        self.jump(s2, self.frame_of(s2, uid), bb); return True
                    return f

                def eqc(x):
                    if isbool: return v if x else z3.Not(v)
                    if is_bv(v): return v == z3.BitVecVal(x, v.size())
                    return v == x
                for bb, vs in groups.items():
                    alts.append((b_or(*[eqc(x) for x in vs]), go(bb)))
                if 'otherwise' in tg:
                    alts.append((b_and(*[b_not(eqc(x)) for x in vals]), go(tg['otherwise'])))
                self.branch(st, alts); return
            elif k == 'call':
                if self.do_call(st, fr, t) is False: return
            elif k == 'resume': raise Unsupported('resume reached')
            else: raise Unsupported('term ' + k)

    def back_edges(self, fn):
        be = getattr(fn, '_back_edges', None)
        if be is not None: return be
        be = set(); color = {}
        def succs(b):
            t = fn.blocks[b].term
            if t is None: return []
            k = t[0]
            if k == 'goto': return [t[1]]
            if k == 'switch': return list(dict.fromkeys(t[2].values()))
            if k == 'drop': return [t[2]['return']]
            if k == 'assert': return [t[4]['success']]
            if k == 'call': return [t[4]['return']] if 'return' in t[4] else []
            return []
        stack = [('bb0', iter(succs('bb0')))]; color['bb0'] = 1
        while stack:
            node, it = stack[-1]
            for nx in it:
                if nx not in fn.blocks: continue
                if color.get(nx) == 1: be.add((node, nx))
                elif nx not in color:
                    color[nx] = 1; stack.append((nx, iter(succs(nx)))); break
            else:
                color[node] = 2; stack.pop()
        fn._back_edges = be
        return be

    def jump(self, st, fr, bb):
        # loop back edges (found by DFS over the function's CFG) are counted as steps
        if (fr['bb'], bb) in self.back_edges(fr['fn']):
            st.steps += 1; st.backedges += 1
            if st.steps > self.step_limit: raise StepLimit()
        fr['bb'] = bb

    def do_call(self, st, fr, t):
        _, dest, callee, args, tg = t
        argv = [self.operand(st, fr, a) for a in args]
        uid = fr['uid']
        retbb = tg.get('return')
        # indirect call through a local (fn pointer / closure value)
        if re.match(r'^(move|copy) _\d+$', callee):
            fv = self.load(st, fr, mirparse.parse_place(callee.split(' ', 1)[1])[0])
            if fv[0] == 'zst' and 'closure@' in fv[1]: fv = ('closure', fv[1])
            if fv[0] == 'closure':
                self.call_fn(st, self.closure_body(fv), [('zst', 'closure-env')] + argv, ret=(uid, dest, retbb)); return True
            if fv[0] == 'fn':
                callee = fv[1]
            elif fv[0] == 'zst':
                callee = re.sub(r'^ZeroSized: ', '', fv[1])
                if callee.startswith('fn('): raise Unsupported('indirect call ' + callee[:80])
            else: raise Unsupported('indirect call ' + str(fv)[:80])
        sname = callee
        for pat, h in self.stubs.items():
            if re.search(pat, sname):
                outs = h(self, st, sname, argv)
                return self.apply_outcomes(st, fr, dest, retbb, outs, sname)
        target = self.prog.resolve(callee)
        if target is not None and target in self.fn_stubs:
            outs = self.fn_stubs[target](self, st, sname, argv)
            return self.apply_outcomes(st, fr, dest, retbb, outs, sname)
        if target is not None:
            if (target in self.merge_fns or self.is_merge_default(callee, target)) and any(self.has_sym(st, a) for a in argv):
                outs = self.merged_call(st, target, argv)
                return self.apply_outcomes(st, fr, dest, retbb, outs, sname)
            if self.prog.is_derived(target):
                meth = target.rsplit('::', 1)[1]
                if meth in ('clone', 'eq', 'ne', 'fmt'):
                    outs = self.summaries.derived(self, st, meth, argv)
                    return self.apply_outcomes(st, fr, dest, retbb, outs, sname)
            self.call_fn(st, target, argv, ret=(uid, dest, retbb)); return True
        self.stats.summaries[mirparse_strip(sname)] += 1
        outs = self.summaries.dispatch(self, st, sname, argv)
        return self.apply_outcomes(st, fr, dest, retbb, outs, sname)

    def apply_outcomes(self, st, fr, dest, retbb, outs, sname):
        """outs: list of (cond, value | Panic | ('tailcall', fname, args, post))"""
        uid = fr['uid']

        def act(v):
            def f(s2):
                if isinstance(v, Panic):
                    self.finish(s2, 'panic', msg=str(v), where=self.where(s2) + ' in ' + mirparse_strip(sname)[:80]); return False
                vv = v(s2) if callable(v) else v
                if isinstance(vv, list):
                    return self.apply_outcomes(s2, self.frame_of(s2, uid), dest, retbb, vv, sname)
                if isinstance(vv, Panic):
                    self.finish(s2, 'panic', msg=str(vv), where=self.where(s2) + ' in ' + mirparse_strip(sname)[:80]); return False
                if isinstance(vv, tuple) and vv and vv[0] == 'tailcall':
                    self.tailcall(s2, uid, dest, retbb, vv); return True
                if retbb is None:
                    raise Unsupported('call to diverging function returned: ' + sname)
                fr2 = self.frame_of(s2, uid)
                self.store(s2, fr2, dest, vv); self.jump(s2, fr2, retbb); return True
            return f
        if len(outs) == 1 and outs[0][0] is True:
            return act(outs[0][1])(st)
        self.branch(st, [(c, act(v)) for c, v in outs]); return False

    def tailcall(self, st, uid, dest, retbb, tc):
        _, fname, args, post = tc

        def cont(s2, ret):
            v = post(s2, ret) if post else ret
            if isinstance(v, tuple) and v and v[0] == 'tailcall':
                self.tailcall(s2, uid, dest, retbb, v); return True
            if isinstance(v, Panic):
                self.finish(s2, 'panic', msg=str(v), where=self.where(s2)); return False
            if isinstance(v, list):      # outcomes list
                fr2 = self.frame_of(s2, uid)
                self.apply_outcomes(s2, fr2, dest, retbb, v, fname)
                return False if len(v) != 1 or v[0][0] is not True or isinstance(v[0][1], Panic) else True
            fr2 = self.frame_of(s2, uid)
            self.store(s2, fr2, dest, v); self.jump(s2, fr2, retbb); return True
        if fname.startswith('{closure@') or 'closure@' in fname:
            fname = self.closure_body(('closure', fname))
        self.call_fn(st, fname, args, cont=cont)

    # ---- merged exploration of pure leaf functions ---------------------------
    def has_sym(self, st, v, depth=0):
        if is_sym(v): return True
        if isinstance(v, tuple):
            if v and v[0] == 'sadt': return True
            if v and v[0] == 'ref' and depth < 3:
                try: return self.has_sym(st, self.rd(st, v), depth + 1)
                except Exception: return False
            if v and v[0] in ('adt',): return any(self.has_sym(st, x, depth) for x in v[3])
            if v and v[0] in ('tuple', 'vec', 'array'): return any(self.has_sym(st, x, depth) for x in v[1])
        return False

    MERGE_DEFAULT = (r'^<number::Number as From<f64>>::from$', r'(^|::)superscript_digit_to_digit$', r'::Token::get_oper_prec$', r'::get_oper_prec$')

    def is_merge_default(self, callee, target):
        if self.merge_off: return False
        c = mirparse_strip(callee)
        r = self._merge_cache.get(c)
        if r is None:
            r = any(re.search(p, c) for p in self.MERGE_DEFAULT)
            self._merge_cache[c] = r
        return r

    def merged_call(self, st, target, argv):
        """run a pure function on symbolic arguments, collect (cond, result) over its paths and merge into one value"""
        results = []
        sub = Engine.__new__(Engine)
        sub.__dict__.update(self.__dict__)
        sub.on_path = lambda p: results.append((b_and(*p.pc[base:]), p))
        sub.no_feasibility = True
        base = len(self.path_condition())
        s2 = st.fork()
        def done(s3, ret):
            sub.finish(s3, 'ret', value=ret); return False
        sub.call_fn(s2, target, argv, cont=done)
        sub.run(s2)
        vals = []
        for cond, p in results:
            if p.kind != 'ret': raise Unsupported('merged function %s did not return on some path' % target)
            vals.append((cond, p.value))
        mv = self.merge_values(vals)
        if mv[0] == 'sadt' and re.search(r'<impl at [^>]*number\.rs[^>]*>::from$', target) and len(argv) == 1 and is_fp(argv[0]):
            mv = mv + ({'from': argv[0]},)      # remember that this Number is Number::from(argv[0]) (contract of C18)
        return [(True, mv)]

    def merge_values(self, vals):
        first = vals[0][1]
        if all(not isinstance(v, tuple) for _, v in vals):
            r = vals[-1][1]
            for c, v in reversed(vals[:-1]): r = ite(c, v, r)
            return r
        if all(isinstance(v, tuple) and v[0] in ('adt', 'sadt') and v[1] == first[1] for _, v in vals):
            ty = first[1]; variants = self.prog.enums[ty]
            d = None; payload = {}
            for c, v in reversed(vals):
                dv = self.discr(v)
                d = dv if d is None else ite(c, dv, d)
            for name in variants:
                cands = [(c, v) for c, v in vals if (v[0] == 'adt' and v[2] == name) or (v[0] == 'sadt')]
                fields = None
                for c, v in cands:
                    f = v[3] if v[0] == 'adt' else v[3].get(name)
                    if f is None: continue
                    if fields is None: fields = list(f)
                    else: fields = [self.merge_values([(c, x), (True, y)]) for x, y in zip(f, fields)]
                payload[name] = tuple(fields) if fields is not None else None
            payload = {k: v for k, v in payload.items() if v is not None}
            if is_conc_int(d): return adt(ty, variants[d] if ty != 'Ordering' else {-1: 'Less', 0: 'Equal', 1: 'Greater'}[d], payload.get(variants[d], ()))
            return ('sadt', ty, d, payload)
        raise Unsupported('cannot merge values of kind ' + str(first[0] if isinstance(first, tuple) else type(first)))

    # ---- entry ------------------------------------------------------------
    def explore(self, fname, args, on_path, state=None, cont=None):
        self.on_path = on_path
        st = state or State()
        self.call_fn(st, fname, args, cont=cont)
        self.run(st)


class StepLimit(Exception):
    pass


class StopExploration(Exception):
    """the path budget of an obligation is used up (reported as a truncated exploration)"""


def as_z3_bool(a):
    return z3.BoolVal(a) if isinstance(a, bool) else a


def unescape(s):
    out = []; i = 0
    while i < len(s):
        c = s[i]
        if c == '\\' and i + 1 < len(s):
            n = s[i + 1]
            if n == 'u':
                j = s.index('}', i); out.append(chr(int(s[i + 3:j], 16))); i = j + 1; continue
            out.append({'n': '\n', 't': '\t', '"': '"', '\\': '\\', 'r': '\r', '0': '\0', "'": "'"}.get(n, n)); i += 2; continue
        out.append(c); i += 1
    return ''.join(out)
