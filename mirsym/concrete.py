"""Concrete evaluation of symbolic terms under a model, with the uninterpreted library functions computed by the
real implementations (libm / rust_decimal / num_complex through the native runner).  Used to predict what the
compiled crate must return on a model, so that every path and every counterexample is confirmed natively."""
import math, struct
from fractions import Fraction
import z3

from .values import *
from . import native


class Concretizer:
    def __init__(self, model, runner=None):
        self.model = model; self.runner = runner; self.cache = {}

    def ev(self, t):
        """z3 term -> concrete z3 value (or Python bool/int passthrough)"""
        if not is_sym(t): return t
        k = t.get_id()
        if k in self.cache: return self.cache[k]
        r = self._ev(t)
        self.cache[k] = r
        return r

    def _ev(self, t):
        if z3.is_int_value(t) or z3.is_bv_value(t) or z3.is_true(t) or z3.is_false(t) or z3.is_rational_value(t) or z3.is_string_value(t): return t
        if z3.is_fp_value(t) or z3.is_fprm_value(t): return t
        if z3.is_const(t) and t.decl().kind() == z3.Z3_OP_UNINTERPRETED:
            return self.model.eval(t, model_completion=True)
        d = t.decl()
        args = [self.ev(c) for c in t.children()]
        if d.kind() == z3.Z3_OP_UNINTERPRETED:
            return self.apply_uf(d.name(), args, t)
        try:
            r = z3.simplify(d(*args))
        except z3.Z3Exception:
            r = z3.simplify(z3.substitute(t, *[(c, a) for c, a in zip(t.children(), args)]))
        if r.get_id() != t.get_id() and not self.is_value(r):
            # e.g. ite with a non-value branch left; evaluate once more through the model
            r2 = self.model.eval(r, model_completion=True)
            return r2
        return r

    @staticmethod
    def is_value(r):
        return z3.is_int_value(r) or z3.is_bv_value(r) or z3.is_true(r) or z3.is_false(r) or z3.is_fp_value(r) or z3.is_rational_value(r) or fp_is_conc(r)

    # -- uninterpreted functions ------------------------------------------------
    def f64_native(self, meth, *xs):
        if self.runner is not None:
            fields = ['F64', meth] + [native.f64_bits_str(x) if isinstance(x, float) else str(x) for x in xs]
            st, payload, _ = self.runner.request(*fields)
            if st == 'OK': return native.bits_to_float(payload)
        from .summaries import py_libm
        if meth == 'powi': return float(xs[0]) ** int(xs[1])
        return py_libm(meth, *xs)

    def apply_uf(self, name, args, t):
        if name.startswith('uf_'):
            meth = name[3:]
            if meth == 'fdiv':
                return z3.simplify(z3.fpDiv(RNE, args[0], args[1]))
            if meth == 'i2f':
                return z3.simplify(z3.fpToFP(RNE, z3.RealVal(args[0].as_long()), F64))
            if meth == 'powi':
                return fp_const(self.f64_native('powi', fp_to_py(args[0]), args[1].as_long()))
            xs = [fp_to_py(a) for a in args]
            return fp_const(self.f64_native(meth, *xs))
        if name == 'R64':
            q = args[0]
            fr = Fraction(q.numerator_as_long(), q.denominator_as_long())
            return fp_const(float(fr))
        if name == 'wrapped_pow':
            b, e = args[0].as_long(), args[1].as_long()
            if abs(b) <= 1 or e <= 4096: return z3.IntVal(wrap(b ** e, 'i64'))
            return z3.IntVal(wrap(pow(b, e, 1 << 64), 'i64'))
        if name.startswith('cx_'):
            return self.cx_native(name, args)
        # anything else (decimal world) stays symbolic under the model
        return self.model.eval(t, model_completion=True)

    def cx_native(self, name, args):
        # name = cx_<meth>_re / _im ; args are the flattened real parts
        base, part = name[3:].rsplit('_', 1) if name.endswith(('_re', '_im')) else (name[3:], None)
        xs = [native.f64_bits_str(fp_to_py(a)) for a in args]
        st, payload, _ = self.runner.request('CX', base, *xs)
        if st != 'OK': raise Unsupported('runner CX %s -> %s %s' % (base, st, payload))
        if part is None: return fp_const(native.bits_to_float(payload))
        re_, im_ = payload.lstrip('c').split(',')
        return fp_const(native.bits_to_float(re_ if part == 're' else im_))

    # -- conveniences -----------------------------------------------------------------
    def int(self, t):
        r = self.ev(t)
        if is_conc_int(r): return r
        if isinstance(r, bool): return int(r)
        if z3.is_bv_value(r): return r.as_signed_long()
        if z3.is_int_value(r): return r.as_long()
        raise Unsupported('not a concrete int: %s' % r)

    def uint(self, t):
        r = self.ev(t)
        if z3.is_bv_value(r): return r.as_long()
        return self.int(t)

    def bool(self, t):
        r = self.ev(t)
        if isinstance(r, bool): return r
        if z3.is_true(r): return True
        if z3.is_false(r): return False
        raise Unsupported('not a concrete bool: %s' % r)

    def f64(self, t):
        r = self.ev(t)
        return fp_to_py(r)

    def f64_bits(self, t):
        return native.f64_bits_str(self.f64(t))
