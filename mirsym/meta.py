"""Metamorphic W-layer obligations: the public function on two spellings that must give the same outcome."""
import time, traceback
import z3

from .harness import *
from .tlayer import CharLeaf, model_string
from .wlayer import PhLeaf, render_decimal
from .player import leaf_equal
from .summaries import WHITE_SPACE
from . import native


def ws_char(name):
    return CharLeaf(name, lambda v: z3.Or([v == w for w in WHITE_SPACE]))


class MetaOb(Obligation):
    """eval_<ev>(A, p) and eval_<ev>(B, p) over the same symbolic holes must agree: both Err, or Ok with the same value"""

    def __init__(self, prop, ev, chars_a, chars_b, label, oc=True, limits=None):
        Obligation.__init__(self, label); self.prop = prop; self.ev = ev; self.a = chars_a; self.b = chars_b; self.oc = oc
        self.limits = limits or {'steps': 6000, 'timeout_ms': 20000}

    def run(self, ctx):
        ev = self.ev
        prog = ctx.prog(self.oc)
        nk = prog.enum_key('number::Number')
        if nk: sem.set_number_variants(prog.enums[nk])
        e = eng_mod.Engine(prog, step_limit=self.limits['steps'], timeout_ms=self.limits['timeout_ms'], seed=ctx.seed)
        e.deadline = time.time() + 600
        profile = 'dev' if self.oc else 'release'
        runner = ctx.runner(profile)
        res = dict(name=self.name, paths=0, obligations=0, discharged=0, confirmed=[], inconclusive=[], replayed=0, replay_mismatch=[], samples=[])
        ph = PhLeaf(ev)
        e.assume(ph.constraint)
        for c in list(self.a) + list(self.b):
            if isinstance(c, CharLeaf): e.assume(c.constraint)
        entry = prog.entry(ev, 'public')
        terms = lambda cs: tuple(c.var if isinstance(c, CharLeaf) else c for c in cs)
        runs = {}
        t0 = time.time()
        try:
            for tag, cs in (('A', self.a), ('B', self.b)):
                got = []
                def on_path(p, got=got):
                    res['paths'] += 1
                    out = impl_outcome(p)
                    got.append((b_and(*p.pc), out))
                e.explore(entry, [('str', terms(cs)), ph.value()], on_path, state=eng_mod.State())
                runs[tag] = got
            for pca, oa in runs['A']:
                for pcb, ob_ in runs['B']:
                    if e.check(pca, pcb) != z3.sat: continue
                    res['obligations'] += 1
                    if oa[0] in ('panic', 'limit') or ob_[0] in ('panic', 'limit'):
                        differ = True; q = True
                    elif oa[0] != ob_[0]: differ = True; q = True
                    elif oa[0] == 'err': res['discharged'] += 1; continue
                    else:
                        same = leaf_equal(ev, oa[1], ob_[1]) if ev != 'decimal' else (oa[1][1] == ob_[1][1])
                        if same is True: res['discharged'] += 1; continue
                        q = b_not(same)
                        r = e.check(pca, pcb, q) if q is not True else z3.sat
                        if r == z3.unsat: res['discharged'] += 1; continue
                        if r == z3.unknown: res['inconclusive'].append('%s: solver unknown on the equality of the two results' % self.name); continue
                    # candidate: confirm natively
                    r = e.check(pca, pcb, q) if q is not True else e.check(pca, pcb)
                    if r != z3.sat: res['inconclusive'].append('%s: no model for a differing pair of paths' % self.name); continue
                    cz = Concretizer(e.solver.model(), runner)
                    sa = model_string(terms(self.a), cz); sb = model_string(terms(self.b), cz)
                    pht = ph.render(cz)
                    na = runner.request('EVAL', ev, pht, native.esc(sa))[:2]; nb = runner.request('EVAL', ev, pht, native.esc(sb))[:2]
                    res['replayed'] += 1
                    ka = na[0] if na[0] != 'OK' else ' '.join(na); kb = nb[0] if nb[0] != 'OK' else ' '.join(nb)
                    if ka != kb:
                        res['confirmed'].append(dict(input='%r vs %r @=%s' % (sa, sb, pht), native='%s vs %s' % (' '.join(na)[:80], ' '.join(nb)[:80]), what='equivalent spellings give different outcomes', profile=profile,
                                                     obligation=self.name, key='%s|spelling|%s' % (ev, profile), request=['EVAL', ev, pht, native.esc(sb)]))
                    else:
                        res['inconclusive'].append('%s: differing symbolic outcomes did not reproduce natively (%r / %r)' % (self.name, sa, sb))
            if runs['A'] and len(res['samples']) < 1:
                res['samples'].append(dict(obligation=self.name, a=''.join(chr(c) if isinstance(c, int) else '?' for c in self.a), b=''.join(chr(c) if isinstance(c, int) else '?' for c in self.b),
                                           paths_a=len(runs['A']), paths_b=len(runs['B'])))
        except Unsupported as ex:
            res['inconclusive'].append('%s: unsupported: %s' % (self.name, ex))
        except Exception:
            res['inconclusive'].append('%s: internal error: %s' % (self.name, traceback.format_exc()[-600:]))
        res['wall_s'] = round(time.time() - t0, 3)
        res['queries'] = dict(e.stats.queries); res['solver_s'] = round(e.stats.solver_s, 3); res['transitions'] = e.stats.transitions
        res['fns'] = sorted(e.stats.fns); res['summaries'] = sorted(e.stats.summaries)
        return res
