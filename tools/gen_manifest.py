"""regenerate /verif/MANIFEST.json from the table below (keeps the manifest valid and in step with the checks that exist)"""
import json, os, sys
VERIF = os.path.dirname(os.path.dirname(os.path.abspath(__file__)))
props = [json.loads(l) for l in open(os.path.join(VERIF, 'properties.jsonl'))]

TECH = 'bounded symbolic execution of rustc MIR (own interpreter) + z3 SMT; counterexamples replayed natively'
NOTE = ('trusted: rustc MIR dump of the scratch copy; MIR semantics and library summaries in /verif/mirsym (validated by replaying every explored path natively); '
        'z3 verdicts (unknown = inconclusive, exit 2); reference semantics in /verif/mirsym/reference written from the property text')

CLAIMED = {
    'C01': dict(text='All four layers from the MIR built with and without overflow checks: every Node variant of all five evaluators on arbitrary operands, every string of 0..2 (thorough 3) characters through the tokenizers and through the public functions, digit / superscript runs at the conversion limits, every token stream of 0..2 (thorough 3) tokens, and `name(@,..)` for every function name and operator with an arbitrary placeholder: no explored path ends in a panic. eval_decimal arithmetic is abstract (failure modes of rust_decimal operations as uninterpreted predicates, witnesses from a boundary pool).',
                ref='DESIGN.md section 6 C01'),
    'C02': dict(text='Symbolic execution with a step counter (crate calls + loop back edges + library iterator elements) as unwinding assertion, budget 4096 + 256*len: every looping construct (x!, ilog, w, gcd, lcm, integer ^, exp2, aggregates) on arbitrary operands and the public functions on looping templates, short arbitrary strings, nested brackets and long literals. Paths are enumerated syntactically (over-approximation), an over-budget path must be infeasible (z3, with a sound range axiom for log10) or it is confirmed by a native run under a 5 s watchdog.',
                ref='DESIGN.md section 6 C02'),
    'C16': dict(text='Every MIR body reachable from the five public functions (call graph from the MIR, closures included) and every library callee named there is scanned for places that outlive a call (statics, thread locals, interior-mutable or synchronisation types, effectful library calls); none exists, so the symbolic result of a call is a function of its two arguments. If one is found, call histories (ordered pairs of a corpus, and 300 repetitions of one call followed by the corpus) are replayed natively against fresh processes.',
                ref='DESIGN.md section 6 C16'),
    'C03': dict(text='The five real parsers (all of parser.rs from MIR) executed over every stream of exactly K symbolic tokens, K = 0..3 (thorough 4), over the complete token vocabulary: the set of accepted token sequences equals the set the reference grammar accepts (both directions) and the trees agree; plus the tokenizers on every string of 0..2 characters, and mod.rs of each evaluator on every string of 0..3 (thorough 0..5) characters with tokenizer+parser and evaluator as nondeterministic stubs: Ok is returned only through Parser::new, parse and eval on the whitespace-free input (no bypass).',
                ref='DESIGN.md section 6 C03'),
    'C04': dict(text='The real parsers over template token streams X op Y op Z (every binary/postfix operator, optional prefix signs and `!`, every bracket kind around every sub-sequence): every accepted sequence yields exactly the tree of the reference operator-precedence grammar (precedence, left associativity, bracket overriding).',
                ref='DESIGN.md section 6 C04'),
    'C12': dict(text='The real parsers over juxtaposition templates (left factor: number, group, floor group, call, factorial; every possible following token; up to 3 (thorough 4) more tokens; five syntactic contexts): products are built exactly after the trigger tokens, R is parsed above the multiplicative level, everything else is rejected.',
                ref='DESIGN.md section 6 C12'),
    'C13': dict(text='(W, metamorphic) the public functions from MIR on templates with symbolic digits, with and without one arbitrary White_Space character inserted (also inside names and numbers): z3 shows for every feasible pair of paths the same value bit for bit or Err in both; (T) every alias gives the token of its synonym; (P) bracket notations, mod/pow as functions, superscripts, prefix + and redundant brackets build the reference tree of their named form.',
                ref='DESIGN.md section 6 C13'),
    'C15': dict(text='Pairwise over the real evaluators: the same integer node in eval_i64 and eval_number on the same arbitrary i64 operands (Ok(v) implies Integer(v)); every Float-operand node of the shared f64 grammar in eval_number against the f64 reference semantics that C05/C10 tie eval_f64 to, under the stated restriction. the five parsers build the one reference tree on templates over the operators they share. The 1e-9 numeric agreements with eval_complex / eval_decimal are outside.',
                ref='DESIGN.md section 6 C15'),
    'C20': dict(text='For the listed parent nodes, child positions and inner nodes of eval_f64, eval_i64, eval_number, eval_complex: three explorations of ast::eval from MIR related by substitution - eval(Outer(..Inner(x)..)) equals eval(Outer(..Number(v)..)) with v := value of Inner(x), Err when Inner is Err - decided by z3 for every feasible combination of paths; plus bracketed groups in operand / argument position at the parser level, and mod.rs of every evaluator (stages stubbed) returns exactly the evaluator\'s value.',
                ref='DESIGN.md section 6 C20'),
    'C14': dict(text='The public eval_* functions from the MIR of mod.rs on `@`, `(@)`, `+@`, `((@))` with a fully symbolic placeholder return exactly the placeholder; in the parser every `@` leaf of every accepted template stream is the placeholder term itself and `@` never joins an implicit product; premise: no state outlives a call (purity scan of every reachable MIR body, native call histories if state is found).',
                ref='DESIGN.md section 6 C14'),
    'C05': dict(text='Every arithmetic node of eval_f64 (one node and two nested nodes, leaves = arbitrary doubles) is shown by z3 to apply the IEEE/libm operation of the same meaning to its operands in order and never to return Err; bounded by tree shape, not by operand values; plus eval_f64 end to end (mod.rs, tokenizer, parser, evaluator) on 26 templates of one to three operators over an arbitrary placeholder.',
                ref='DESIGN.md section 6 C05'),
    'C06': dict(text='Every integer node of eval_i64 is executed symbolically on arbitrary i64 operands from the MIR built with and without overflow checks; z3 (Int theory) shows Ok(v) implies v is the exact result and overflow / zero divisor / bad shift count give Err, never a panic or a wrapped value. Exponent case split 0..64, n! for n <= 25; plus eval_i64 end to end on one-operator templates with a symbolic digit and an arbitrary placeholder.',
                ref='DESIGN.md section 6 C06'),
    'C07': dict(text='The arithmetic arms of eval_decimal executed from MIR over abstract Decimal operands: Ok(v) iff the checked rust_decimal operation of the same meaning succeeds, with v that operation applied to the operands in order, Err (never a panic) otherwise, also through a parent node; the decimal tokenizer hands literals of 1..28 digits to from_str with exactly their value and scale. The exactness of rust_decimal itself is the trusted contract of the dependency.',
                ref='DESIGN.md section 6 C07'),
    'C08': dict(text='Every node of eval_complex from MIR on arbitrary pairs of doubles: + - and unary minus are the component formulas bit for bit, * the textbook product, / the quotient through the squared norm, each function the num_complex method of the same meaning on its operands in order (methods uninterpreted); the tokenizer reads `i` and DIGITS i as (0, v) and keeps `pi`; eval_complex("i*i") is exactly (-1, 0). Numeric accuracy of the transcendental methods is outside.',
                ref='DESIGN.md section 6 C08'),
    'C09': dict(text='Every eval_number node on every Integer/Float operand-variant combination with arbitrary payloads: z3 (bit-vectors + FP, Int for exact powers) decides exact Integer results, the float fallback and correct rounding. The contract of Number::from that these obligations assume is decided in the same run (premise obligation, all doubles), and digit-only literals of 1, 16..19 digits are shown to be read as exactly that Integer.',
                ref='DESIGN.md section 6 C09'),
    'C10': dict(text='(T) the five real tokenizers executed from MIR on every README name, alias and word constant followed by arbitrary characters: the function token is produced exactly when the name is this evaluator\'s and is directly followed by `(`, the longest name wins, foreign names give no token; (E) every function node of eval_f64 / eval_number (and the exact ones of eval_i64) applies the library function of that name to its arguments in order (libm uninterpreted; rounding, abs, sqrt, sgn, n! exact), every function node of eval_decimal the rust_decimal operation of that name and every function node of eval_complex the num_complex method (both abstract); premise: Number::from decided for all doubles.',
                ref='DESIGN.md section 6 C10'),
    'C19': dict(text='Tokenizer::next of all five tokenizers on literal templates with n symbolic digits (n up to 40, thorough 100), every point position and an arbitrary following character: the Num token carries exactly the rational value of the literal (Integer/Float kind in eval_number, exact scale in eval_decimal), exactly the literal is consumed, and no conversion can panic.',
                ref='DESIGN.md section 6 C19'),
    'C11': dict(text='The aggregate arms of ast::eval (eval_i64, eval_f64, eval_number) executed from MIR on argument vectors of 1..3 (thorough 4) arbitrary values and with a failing argument in each position; z3 compares with the order-independent definition (exact integer extremum when all eval_number arguments are Integers). gcd/lcm: operands bounded (see evidence), compared with an unrolled reference Euclid.',
                ref='DESIGN.md section 6 C11'),
    'C17': dict(text='For the feature subsets (quick: singles, pairs with eval_i64, full set; thorough: all 31) the MIR dump succeeds (a failing subset is re-built with cargo and reported), exactly the selected eval_* functions are compiled and link, every MIR body of the subset equals a default-build body of the same trimmed name (name-independent fingerprint; cfg-dependent bodies must be covered semantically), Number::from(f64) is decided from each subset\'s MIR for all doubles, and the parser executed from that subset\'s MIR (with its cfg-dependent OperatorCategory order) groups X op Y op Z for every operator pair as the reference grammar.',
                ref='DESIGN.md section 6 C17'),
    'C18': dict(text='Both From impls of Number executed from MIR on one fully symbolic argument: z3 decides the property for all 2^64 doubles and all i64 (no bound on the argument); the other conversion into Number, digit-only literal text of 1, 16..19 digits, is read as exactly that Integer.',
                ref='DESIGN.md section 6 C18'),
}

NA_REASON = 'check not built yet (framework under construction; see DESIGN.md section 6 for the planned harness)'


def main():
    checks = []
    for p in props:
        pid = p['id']
        if pid not in CLAIMED: continue
        c = CLAIMED[pid]
        checks.append(dict(
            property_id=pid,
            quick_cmd='./check %s --tier quick' % pid,
            thorough_cmd='./check %s --tier thorough' % pid,
            evidence_file='/verif/evidence/%s.json' % pid,
            replay_cmd_template='./check %s --replay {path}' % pid,
            engine='mirsym',
            level_claimed=dict(category='model_checking', text=c['text'], design_ref=c['ref']),
            level_note=NOTE, technique=TECH))
    m = dict(
        version=1,
        setup_cmd='./setup.sh',
        hooks=dict(guard='none', enable='no source hooks: checks read rustc MIR of a scratch copy of /repo and link a mirror of it in which `mod x;` is widened to `pub mod x;`',
                   baseline_off_cmd='cd /repo && cargo test --workspace --no-fail-fast --offline', source_commits=[], add_only=True),
        engines=[dict(name='mirsym', path='/verif/mirsym', serves_properties=sorted(CLAIMED),
                      kind_free_text='path-forking symbolic interpreter over rustc MIR of /repo\'s working tree (regenerated every run); z3 decides every branch and every property query within stated bounds; every model is replayed on the natively compiled crate (dev and release profiles)')],
        checks=checks,
        notes='Exit codes: 0 property held within the bounds, 1 natively reproduced violation (VIOLATION line), 2 inconclusive (unsupported construct, solver unknown, engine/native mismatch).',
        not_applicable=[dict(property_id=p['id'], reason=NA_REASON) for p in props if p['id'] not in CLAIMED],
    )
    json.dump(m, open(os.path.join(VERIF, 'MANIFEST.json'), 'w'), indent=1)
    try:
        import jsonschema
        jsonschema.validate(m, json.load(open('/root/.vp/MANIFEST.schema.json')))
        print('MANIFEST.json written and valid:', len(checks), 'checks,', len(m['not_applicable']), 'not applicable')
    except ImportError:
        print('written (jsonschema not available)')


if __name__ == '__main__':
    main()
