#!/bin/bash
# run every registered quick (or $1) check, print one line per property
tier=${1:-quick}
cd /verif
for id in $(python3 -c "import json; print(' '.join(c['property_id'] for c in json.load(open('MANIFEST.json'))['checks']))"); do
  t0=$(date +%s)
  out=$(./check $id --tier $tier 2>&1); rc=$?
  echo "$id rc=$rc $(( $(date +%s) - t0 ))s $(echo "$out" | grep "^$id tier" | cut -c1-220) $(echo "$out" | grep -c '^VIOLATION') viol $(echo "$out" | grep '^INCONCLUSIVE\|^ENGINE' | head -2 | cut -c1-200 | tr '\n' ' ')"
done
