#!/bin/bash
# usage: try_mutation.sh <seeded dir> <check id> [more ids]
# applies the patch in a scratch worktree of /repo (checks are pointed at it with VERIF_REPO), runs the quick checks, removes the worktree
S=$(realpath $1); shift
W=/tmp/mut_$(basename $S)_$$
git -C /repo worktree add -q --detach $W HEAD || exit 3
trap 'git -C /repo worktree remove --force $W >/dev/null 2>&1; rm -rf $W' EXIT
( cd $W && git apply $S/patch.diff ) || { echo "$(basename $S): patch does not apply"; exit 3; }
for id in "$@"; do
  out=$(cd /verif && VERIF_REPO=$W VERIF_EVIDENCE_DIR=/tmp/mut_evidence timeout ${TRY_TIMEOUT:-1200} ./check $id --tier ${TRY_TIER:-quick} 2>&1); rc=$?
  nviol=$(echo "$out" | grep -c "^VIOLATION")
  echo "$(basename $S) check=$id exit=$rc violations=$nviol :: $(echo "$out" | grep -A1 "^VIOLATION" | grep -v "^VIOLATION\|^--" | head -2 | tr '\n' ' ' | cut -c1-300) $(echo "$out" | grep "^INCONCLUSIVE\|ENGINE-MISMATCH" | head -2 | tr '\n' ' ' | cut -c1-300)"
done
