"""developer tool: run the obligations of one property serially with per-obligation timing
usage: python3-vt tools/run_obs.py C06 quick [name-filter ...]"""
import sys, time, os
sys.path.insert(0, os.path.dirname(os.path.dirname(os.path.abspath(__file__))))
os.environ['VERIF_SERIAL'] = '1'
import importlib
from mirsym import harness

prop, tier = sys.argv[1], sys.argv[2]
want = sys.argv[3:]
ctx = harness.Ctx(prop, tier, int(os.environ.get('VERIF_SEED', '0')), 1)
mod = importlib.import_module('mirsym.props.' + prop.lower())
obs = mod.obligations(ctx)
for o in obs:
    if want and not any(w in o.name for w in want): continue
    t = time.time()
    harness._CTX = ctx; harness._OBS = [o]
    r = harness._worker(0)
    print(o.name, 'paths', r['paths'], 'obl', r['obligations'], 'dis', r['discharged'], 'conf', len(r['confirmed']), 'replayed', r['replayed'],
          'inc', r['inconclusive'][:2], 'mm', r['replay_mismatch'][:1], 'q', r['queries'], 'solver', r['solver_s'], 'wall', round(time.time() - t, 2), flush=True)
    for c in r['confirmed'][:4]: print('     ', {k: v for k, v in c.items() if k in ('sexpr', 'input', 'native', 'what', 'key')})
ctx.close()
