import sys,re,collections
tot=collections.Counter(); bad=[]
for line in sys.stdin:
    if 'WARNING' in line: continue
    m=re.match(r'^(\S+) paths (\d+) obl (\d+) dis (\d+) conf (\d+) replayed (\d+) inc (\[.*?\]) mm (\[.*?\]) q .* wall ([\d.]+)',line)
    if m:
        tot['obs']+=1; tot['paths']+=int(m.group(2)); tot['obl']+=int(m.group(3)); tot['dis']+=int(m.group(4)); tot['conf']+=int(m.group(5)); tot['wall']+=float(m.group(9))
        if m.group(5)!='0' or m.group(7)!='[]' or m.group(8)!='[]': bad.append(line.strip()[:int(sys.argv[1]) if len(sys.argv)>1 else 260])
    elif line.startswith('      ') and len(bad)<40: bad.append('   '+line.strip()[:int(sys.argv[1]) if len(sys.argv)>1 else 260])
print(dict(tot)); print('\n'.join(bad[:60]))
