#!/bin/bash
# usage: confirm_mutation.sh <mutation dir with patch.diff demo.rs>  -> prints CONFIRMED / REJECTED with reasons
# (1) patch applies to a fresh worktree of /repo HEAD, (2) existing tests pass with it, (3) demo fails with it, (4) demo passes without it
set -u
M=$1
W=/tmp/confirm_$$
git -C /repo worktree add -q --detach $W HEAD || exit 3
cleanup() { git -C /repo worktree remove --force $W >/dev/null 2>&1; rm -rf $W; }
trap cleanup EXIT
cd $W
export CARGO_TARGET_DIR=/tmp/confirm_target
mkdir -p tests
cp $M/demo.rs tests/demo_x.rs
rel=""
python3 -c "import json,sys; sys.exit(0 if '--release' in json.load(open('$M/meta.json')).get('demo_cmd','') else 1)" 2>/dev/null && rel="--release"
feat=$(python3 -c "
import json,re
c=json.load(open('$M/meta.json')).get('demo_cmd','')
m=re.search(r'--features[ =]([\\w,]+)',c)
print(('--no-default-features --features '+m.group(1)) if '--no-default-features' in c and m else '')" 2>/dev/null)
cargo test --offline $rel $feat --test demo_x >/tmp/confirm_clean.log 2>&1; clean=$?
git apply $M/patch.diff || { echo "REJECTED patch does not apply"; exit 1; }
cargo test --offline --lib >/tmp/confirm_suite.log 2>&1; suite=$?
npass=$(grep -E "^test result" /tmp/confirm_suite.log | head -1)
cargo test --offline $rel $feat --test demo_x >/tmp/confirm_mut.log 2>&1; mut=$?
if [ $clean -eq 0 ] && [ $suite -eq 0 ] && [ $mut -ne 0 ]; then echo "CONFIRMED ($npass; demo: clean pass, mutated fail${rel:+, release}${feat:+, $feat})"; exit 0; fi
echo "REJECTED clean=$clean suite=$suite mutated=$mut $npass"; exit 1
